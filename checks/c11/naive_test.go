// Naive Merkle-Patricia root written from the yellow paper (appendices B, C, D), sharing no
// code with eth/trie, eth/rlp or eth/crypto: own RLP, own hex-prefix, own structural
// composition; keccak from golang.org/x/crypto.
package c11

import (
	"bytes"
	"io"
	"sort"

	"golang.org/x/crypto/sha3"
)

func kec(b []byte) []byte {
	d := sha3.NewLegacyKeccak256()
	d.Write(b)
	out := make([]byte, 32)
	d.(io.Reader).Read(out) // squeeze without cloning the sponge (same digest as Sum)
	return out
}

// ---- RLP (appendix B) ----

func rlpLen(n int, off byte) []byte {
	if n < 56 {
		return []byte{off + byte(n)}
	}
	var be []byte
	for x := n; x > 0; x >>= 8 {
		be = append([]byte{byte(x)}, be...)
	}
	return append([]byte{off + 55 + byte(len(be))}, be...)
}

func rlpStr(b []byte) []byte {
	if len(b) == 1 && b[0] < 0x80 {
		return []byte{b[0]}
	}
	return append(rlpLen(len(b), 0x80), b...)
}

// rlpList takes already serialised items.
func rlpList(items ...[]byte) []byte {
	var body []byte
	for _, it := range items {
		body = append(body, it...)
	}
	return append(rlpLen(len(body), 0xc0), body...)
}

// rlpUint: big-endian without leading zeros (a scalar); b may carry leading zeros.
func rlpScalar(b []byte) []byte {
	for len(b) > 0 && b[0] == 0 {
		b = b[1:]
	}
	return rlpStr(b)
}

// ---- hex-prefix (appendix C) ----

func nibbles(key []byte) []byte {
	out := make([]byte, 0, 2*len(key))
	for _, b := range key {
		out = append(out, b>>4, b&15)
	}
	return out
}

func hexPrefix(nib []byte, leaf bool) []byte {
	f := byte(0)
	if leaf {
		f = 2
	}
	var out []byte
	if len(nib)%2 == 1 {
		out = append(out, 16*(f+1)+nib[0])
		nib = nib[1:]
	} else {
		out = append(out, 16*f)
	}
	for i := 0; i < len(nib); i += 2 {
		out = append(out, 16*nib[i]+nib[i+1])
	}
	return out
}

// ---- trie (appendix D) ----

type nkv struct {
	k []byte // nibbles
	v []byte
}

type naiveStats struct {
	nodes, embedded, exact32, branches, exts, leaves, branchValues int
}

// compose is c(J, i): the RLP structure of the node covering the (non-empty) set J whose keys
// agree on their first i nibbles.
func compose(J []nkv, i int, st *naiveStats) []byte {
	st.nodes++
	if len(J) == 1 {
		st.leaves++
		return rlpList(rlpStr(hexPrefix(J[0].k[i:], true)), rlpStr(J[0].v))
	}
	// longest common prefix length j of all keys
	j := len(J[0].k)
	for _, e := range J[1:] {
		n := 0
		for n < j && n < len(e.k) && e.k[n] == J[0].k[n] {
			n++
		}
		j = n
	}
	if j > i {
		st.exts++
		return rlpList(rlpStr(hexPrefix(J[0].k[i:j], false)), ref(J, j, st))
	}
	st.branches++
	items := make([][]byte, 17)
	for nb := 0; nb < 16; nb++ {
		var sub []nkv
		for _, e := range J {
			if len(e.k) > i && int(e.k[i]) == nb {
				sub = append(sub, e)
			}
		}
		items[nb] = ref(sub, i+1, st)
	}
	items[16] = rlpStr(nil)
	for _, e := range J {
		if len(e.k) == i {
			items[16] = rlpStr(e.v)
			st.branchValues++
		}
	}
	return rlpList(items...)
}

// ref is n(J, i): empty string, the structure itself when shorter than 32 bytes, else its hash.
func ref(J []nkv, i int, st *naiveStats) []byte {
	if len(J) == 0 {
		return rlpStr(nil)
	}
	c := compose(J, i, st)
	if len(c) < 32 {
		st.embedded++
		return c
	}
	if len(c) == 32 {
		st.exact32++
	}
	return rlpStr(kec(c))
}

// naiveRoot is TRIE(J) for a byte-keyed content map (entries with empty values are absent).
func naiveRoot(content map[string][]byte) ([]byte, naiveStats) {
	var st naiveStats
	keys := make([]string, 0, len(content))
	for k, v := range content {
		if len(v) > 0 {
			keys = append(keys, k)
		}
	}
	sort.Strings(keys)
	J := make([]nkv, 0, len(keys))
	for _, k := range keys {
		J = append(J, nkv{nibbles([]byte(k)), content[k]})
	}
	if len(J) == 0 {
		return kec(rlpStr(nil)), st
	}
	return kec(compose(J, 0, &st)), st
}

// naiveSecureRoot hashes the keys first (secure trie).
func naiveSecureRoot(content map[string][]byte) ([]byte, naiveStats) {
	m := make(map[string][]byte, len(content))
	for k, v := range content {
		m[string(kec([]byte(k)))] = v
	}
	return naiveRoot(m)
}

// ---- world state (yellow paper 4.1): account = RLP(nonce, balance, storageRoot, codeHash) ----

type naiveAccount struct {
	nonce   uint64
	balance []byte // big-endian
	code    []byte
	storage map[string][]byte // 32-byte key -> 32-byte value (zero values absent)
}

func naiveStateRoot(accts map[string]*naiveAccount) []byte {
	world := map[string][]byte{}
	for addr, a := range accts {
		st := map[string][]byte{}
		for k, v := range a.storage {
			t := bytes.TrimLeft(v, "\x00")
			if len(t) > 0 {
				st[k] = rlpStr(t)
			}
		}
		sroot, _ := naiveSecureRoot(st)
		var nb []byte
		for x := a.nonce; x > 0; x >>= 8 {
			nb = append([]byte{byte(x)}, nb...)
		}
		world[addr] = rlpList(rlpStr(nb), rlpScalar(a.balance), rlpStr(sroot), rlpStr(kec(a.code)))
	}
	r, _ := naiveSecureRoot(world)
	return r
}
