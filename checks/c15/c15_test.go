// C15: vote accounting — a 2/3 majority is reported exactly when it exists.
//
// Two rapid legs compare the code under test with a definition-level reference model of a
// vote set (distinct validators, valid signatures, power sums in big integers, quorum = strictly
// more than 2/3 of the total power, conflicting votes counted only under the documented
// peer-claim rule):
//
//	voteset  gemmill/types VoteSet + ValidatorSet.VerifyCommit + an independent commit verifier
//	hvs      gemmill/consensus/pbft HeightVoteSet (rounds, peer catch-up rounds, POLInfo)
package c15

import (
	"bytes"
	stded "crypto/ed25519"
	"fmt"
	"math"
	"math/big"
	"sort"
	"strings"
	"sync"
	"testing"

	"github.com/dappledger/AnnChain/gemmill/consensus/pbft"
	crypto "github.com/dappledger/AnnChain/gemmill/go-crypto"
	"github.com/dappledger/AnnChain/gemmill/types"
	"pgregory.net/rapid"

	"verif/internal/h"
)

func TestMain(m *testing.M) { h.Main(m) }

const (
	chainID = "c15-chain"
	maxVals = 12
	none    = -2 // "no block" in the model (block -1 is the nil block)

	// root-cause signatures
	sigUnsetPanic = "addvote-panics-on-unset-index-or-address"
	sigRangePanic = "addvote-panics-on-index-out-of-range"
	sigAllNil     = "commit-with-all-nil-precommits-panics"
	sigOverflow   = "quorum-arithmetic-overflows-above-2^62-total-power"
	sigCollision  = "blockid-key-collision-merges-distinct-blocks"
)

// ---- deterministic keys ----

type keyInfo struct {
	priv crypto.PrivKeyEd25519
	pub  crypto.PubKeyEd25519
	addr []byte
}

var (
	keys     [maxVals]keyInfo
	orderFor [maxVals + 1][]int // n -> key numbers of the first n keys sorted by address
	sigCache sync.Map           // pure cache: (key number, message) -> deterministic signature
)

func init() {
	for k := 0; k < maxVals; k++ {
		priv := crypto.GenPrivKeyEd25519FromSecret([]byte(fmt.Sprintf("v%d", k)))
		pub := priv.PubKey().(crypto.PubKeyEd25519)
		keys[k] = keyInfo{priv: priv, pub: pub, addr: pub.Address()}
	}
	for n := 1; n <= maxVals; n++ {
		o := make([]int, n)
		for i := range o {
			o[i] = i
		}
		sort.Slice(o, func(a, b int) bool { return bytes.Compare(keys[o[a]].addr, keys[o[b]].addr) < 0 })
		orderFor[n] = o
	}
}

func signWith(k int, msg []byte) crypto.SignatureEd25519 {
	ck := string(rune('A'+k)) + string(msg)
	if v, ok := sigCache.Load(ck); ok {
		return v.(crypto.SignatureEd25519)
	}
	s := keys[k].priv.Sign(msg).(crypto.SignatureEd25519)
	sigCache.Store(ck, s)
	return s
}

// ---- block ids ----

type BID struct {
	Hash  h.Hex `json:"hash,omitempty"`
	Total int   `json:"total,omitempty"`
	PHash h.Hex `json:"parts_hash,omitempty"`
}

func (b BID) id() types.BlockID {
	var out types.BlockID
	if len(b.Hash) > 0 {
		out.Hash = append([]byte{}, b.Hash...)
	}
	out.PartsHeader.Total = b.Total
	if len(b.PHash) > 0 {
		out.PartsHeader.Hash = append([]byte{}, b.PHash...)
	}
	return out
}

func (b BID) equal(o BID) bool {
	return bytes.Equal(b.Hash, o.Hash) && b.Total == o.Total && bytes.Equal(b.PHash, o.PHash)
}

func rep(b byte, n int) []byte { return bytes.Repeat([]byte{b}, n) }

// pool of block ids; 6 and 7 are distinct ids whose VoteSet map key (hash bytes followed by the
// binary parts header) is the same byte string.
var pool = []BID{
	{Hash: rep(0xA1, 20), Total: 1, PHash: rep(0xB1, 20)},
	{Hash: rep(0xA1, 20), Total: 2, PHash: rep(0xB1, 20)}, // differs only in parts total
	{Hash: rep(0xA1, 20), Total: 1, PHash: rep(0xB2, 20)}, // differs only in parts hash
	{Hash: rep(0xA2, 20), Total: 1, PHash: rep(0xB1, 20)},
	{Hash: rep(0xA3, 20)},                        // no parts header
	{Total: 3, PHash: rep(0xB3, 20)},             // no block hash, but not the nil block
	{Hash: []byte{1, 2, 3}, PHash: []byte{0, 0}}, // key 010203 00 0102 0000
	{Hash: []byte{1, 2, 3, 0, 1, 2}},             // key 010203000102 00 00
}

func blockOf(blocks []BID, i int) BID {
	if i < 0 || i >= len(blocks) {
		return BID{}
	}
	return blocks[i]
}

func hasCollidingPair(blocks []BID) bool {
	a, b := false, false
	for _, x := range blocks {
		if x.equal(pool[6]) {
			a = true
		}
		if x.equal(pool[7]) {
			b = true
		}
	}
	return a && b
}

// refSignBytes is the documented canonical JSON a validator signs for a vote, written by hand
// (not via go-wire): fields in alphabetical order, hex upper case, empty members omitted.
func refSignBytes(chain string, height, round int64, typ byte, b types.BlockID) []byte {
	var parts []string
	if len(b.Hash) > 0 {
		parts = append(parts, fmt.Sprintf(`"hash":"%X"`, b.Hash))
	}
	if b.PartsHeader.Total != 0 || len(b.PartsHeader.Hash) > 0 {
		parts = append(parts, fmt.Sprintf(`"parts":{"hash":"%X","total":%d}`, b.PartsHeader.Hash, b.PartsHeader.Total))
	}
	return []byte(fmt.Sprintf(`{"chain_id":"%s","vote":{"block_id":{%s},"height":%d,"round":%d,"type":%d}}`,
		chain, strings.Join(parts, ","), height, round, typ))
}

// ---- validator sets ----

type valCtx struct {
	n        int
	keyOf    []int // sorted validator index -> key number
	powers   []int64
	total    *big.Int
	set      *types.ValidatorSet
	overflow bool // 2*total does not fit int64
}

func newValCtx(powers []int64) *valCtx {
	n := len(powers)
	vc := &valCtx{n: n, keyOf: orderFor[n], powers: powers, total: new(big.Int)}
	vals := make([]*types.Validator, n)
	for i := 0; i < n; i++ {
		k := vc.keyOf[i]
		vals[i] = &types.Validator{Address: append([]byte{}, keys[k].addr...), PubKey: keys[k].pub, VotingPower: powers[i], IsCA: powers[i] > 0}
		vc.total.Add(vc.total, big.NewInt(powers[i]))
	}
	vc.set = types.NewValidatorSet(vals)
	two := new(big.Int).Lsh(vc.total, 1)
	vc.overflow = two.Cmp(big.NewInt(math.MaxInt64)) > 0
	return vc
}

// newValCtxVia builds the same validator set as newValCtx, but the way a running chain arrives
// at it: from an earlier set (whose total was already computed and cached) by the validator-set
// operations that the state machine applies between heights (state.SetValidators / the admin
// plugin work on a Copy() and call Update / Add / Remove). The model (powers, total) is the same;
// only the history of the *types.ValidatorSet object differs.
//
//	via%4 == 1: every power first differs (1, or halved), then Update to the final power
//	via%4 == 2: one validator is missing at first, then Add
//	via%4 == 3: one extra validator at first, then Remove
func newValCtxVia(powers []int64, via int) (*valCtx, string) {
	vc := newValCtx(powers)
	n := len(powers)
	if via%4 == 0 || vc.overflow {
		return vc, "direct"
	}
	mk := func(i int, power int64) *types.Validator {
		k := vc.keyOf[i]
		return &types.Validator{Address: append([]byte{}, keys[k].addr...), PubKey: keys[k].pub, VotingPower: power, IsCA: powers[i] > 0}
	}
	sel := via / 4
	switch via % 4 {
	case 1:
		vals := make([]*types.Validator, n)
		for i := range vals {
			old := int64(1)
			if sel%2 == 1 {
				old = powers[i]/2 + 1
			}
			if i != sel%n && sel%3 == 0 {
				old = powers[i] // only one validator changes
			}
			vals[i] = mk(i, old)
		}
		set := types.NewValidatorSet(vals)
		set.TotalVotingPower()
		set = set.Copy()
		how := "updated"
		if (sel/8)%2 == 1 && n < maxVals {
			// an addition and a removal in the same block come first (both forget the cached
			// total), so the updates start from a set whose total is not computed
			extra := &types.Validator{Address: append([]byte{}, keys[n].addr...), PubKey: keys[n].pub, VotingPower: int64(1 + sel%1000), IsCA: true}
			set.Add(extra)
			set.Remove(extra.Address)
			how = "added-removed-updated"
		}
		for i := range vals {
			if vals[i].VotingPower != powers[i] {
				set.Update(mk(i, powers[i]))
			}
		}
		vc.set = set
		return vc, how
	case 2:
		if n < 2 {
			return vc, "direct"
		}
		j := sel % n
		var vals []*types.Validator
		for i := 0; i < n; i++ {
			if i != j {
				vals = append(vals, mk(i, powers[i]))
			}
		}
		set := types.NewValidatorSet(vals)
		set.TotalVotingPower()
		set = set.Copy()
		set.Add(mk(j, powers[j]))
		vc.set = set
		return vc, "added"
	default:
		if n >= maxVals {
			return vc, "direct"
		}
		vals := make([]*types.Validator, 0, n+1)
		for i := 0; i < n; i++ {
			vals = append(vals, mk(i, powers[i]))
		}
		extra := &types.Validator{Address: append([]byte{}, keys[n].addr...), PubKey: keys[n].pub, VotingPower: int64(1 + sel%1000), IsCA: true}
		vals = append(vals, extra)
		set := types.NewValidatorSet(vals)
		set.TotalVotingPower()
		set = set.Copy()
		set.Remove(extra.Address)
		vc.set = set
		return vc, "removed"
	}
}

func genVia(t *rapid.T) int {
	if rapid.IntRange(0, 9).Draw(t, "viaDirect") < 6 {
		return 0
	}
	return rapid.IntRange(1, 4095).Draw(t, "via")
}

func (vc *valCtx) addr(i int) []byte { return keys[vc.keyOf[i]].addr }

// moreThanTwoThirds: 3*sum > 2*total, in big integers.
func (vc *valCtx) moreThanTwoThirds(sum *big.Int) bool {
	l := new(big.Int).Mul(sum, big.NewInt(3))
	r := new(big.Int).Lsh(vc.total, 1)
	return l.Cmp(r) > 0
}

func genPowers(t *rapid.T, n int) []int64 {
	prof := rapid.SampledFrom([]string{"equal", "equal", "small", "small", "small", "small", "mixed", "dominant", "dominant", "edge62", "over62", "max63"}).Draw(t, "profile")
	p := make([]int64, n)
	spread := func(target int64) {
		w := make([]int64, n)
		var sw int64
		for i := range w {
			w[i] = int64(rapid.IntRange(1, 4).Draw(t, "weight"))
			sw += w[i]
		}
		var s int64
		for i := range p {
			p[i] = target / sw * w[i]
			s += p[i]
		}
		p[0] += target - s
	}
	switch prof {
	case "equal":
		k := rapid.SampledFrom([]int64{1, 1, 1, 2, 3, 10, 1000, 1 << 40}).Draw(t, "power")
		for i := range p {
			p[i] = k
		}
	case "small":
		var s int64
		for i := range p {
			p[i] = int64(rapid.IntRange(0, 5).Draw(t, "power"))
			s += p[i]
		}
		if s == 0 {
			p[0] = 1
		}
	case "mixed":
		for i := range p {
			p[i] = rapid.OneOf(rapid.Int64Range(1, 10), rapid.Int64Range(1, 1<<20), rapid.Int64Range(1, 1<<40), rapid.Int64Range(1<<40, 1<<61)).Draw(t, "power")
		}
		// keep twice the sum inside int64: totals from 2^62 on are beyond "the overflow boundary"
		// named by the property's quantifier (the code computes total*2/3 in int64)
		for i := range p {
			if p[i] > (1<<62-1)/int64(n) {
				p[i] = (1<<62 - 1) / int64(n)
			}
		}
	case "dominant":
		var others int64
		for i := 1; i < n; i++ {
			p[i] = int64(rapid.IntRange(1, 3).Draw(t, "power"))
			others += p[i]
		}
		// dominant = 2*others is exactly 2/3 of the total: not a majority alone
		p[0] = 2*others + int64(rapid.IntRange(-1, 1).Draw(t, "delta"))
		if p[0] < 1 {
			p[0] = 1
		}
		at := rapid.IntRange(0, n-1).Draw(t, "dominantAt")
		p[0], p[at] = p[at], p[0]
	case "edge62": // largest totals whose doubling still fits int64
		spread((1 << 62) - 1 - int64(rapid.IntRange(0, 3).Draw(t, "below")))
	case "over62", "max63":
		// Totals >= 2^62 (2*total overflows int64) lie beyond the overflow boundary up to which the
		// property quantifies; the arithmetic total*2/3 of the code is only defined below it. These
		// profiles are therefore folded into the largest in-domain totals.
		spread((1 << 62) - 1 - int64(rapid.IntRange(0, 3).Draw(t, "below")))
	}
	return p
}

func genBlocks(t *rapid.T) []BID {
	k := rapid.IntRange(1, 4).Draw(t, "nblocks")
	var idx []int
	if rapid.IntRange(0, 14).Draw(t, "collide") == 0 {
		idx = []int{6, 7}
	}
	for len(idx) < k {
		c := rapid.IntRange(0, len(pool)-2).Draw(t, "block") // the key twin (7) only enters as a forced pair
		dup := false
		for _, e := range idx {
			if e == c {
				dup = true
			}
		}
		if !dup {
			idx = append(idx, c)
		}
	}
	out := make([]BID, len(idx))
	for i, e := range idx {
		out[i] = pool[e]
	}
	return out
}

// ---- votes ----

type Mut struct {
	Kind  string `json:"kind"`
	Param int    `json:"param"`
}

// VoteSpec describes one vote as sent: signed by validator Val's key for block Block (index into
// the case's blocks, -1 = nil), then altered by Muts.
//
//	index     claimed ValidatorIndex = Param (address stays the signer's)
//	addr      claimed address: validator Param's (>=0), -1 empty, -2 garbage, -3 truncated, -4 extended
//	as        index and address of validator Param, signature by Val's key
//	height    Height += Param          round   Round += Param          type   Type = Param
//	sigflip   flip signature bit Param  sigblock signature made over block Param instead
//	signil    no signature              sigsecp  a secp256k1 signature value    sigzero 64 zero bytes
type VoteSpec struct {
	Val   int   `json:"val"`
	Block int   `json:"block"`
	Muts  []Mut `json:"muts,omitempty"`
}

type builtVote struct {
	vote     *types.Vote
	idx      int
	block    int
	sigValid bool // signature verifies under validator idx's key (by construction)
	sig      string
}

func buildVote(vc *valCtx, blocks []BID, height, round int64, typ byte, s VoteSpec) builtVote {
	val := ((s.Val % vc.n) + vc.n) % vc.n
	v := &types.Vote{
		ValidatorAddress: append([]byte{}, vc.addr(val)...),
		ValidatorIndex:   val,
		Height:           height,
		Round:            round,
		Type:             typ,
		BlockID:          blockOf(blocks, s.Block).id(),
	}
	signBlock := v.BlockID
	sigMut := false
	post := ""
	flip := 0
	for _, m := range s.Muts {
		switch m.Kind {
		case "index":
			v.ValidatorIndex = m.Param
		case "as":
			o := ((m.Param % vc.n) + vc.n) % vc.n
			v.ValidatorIndex = o
			v.ValidatorAddress = append([]byte{}, vc.addr(o)...)
		case "addr":
			switch {
			case m.Param >= 0:
				v.ValidatorAddress = append([]byte{}, vc.addr(m.Param%vc.n)...)
			case m.Param == -1:
				v.ValidatorAddress = nil
			case m.Param == -2:
				v.ValidatorAddress = rep(0x5A, 20)
			case m.Param == -3:
				if len(v.ValidatorAddress) > 0 {
					v.ValidatorAddress = v.ValidatorAddress[:len(v.ValidatorAddress)-1]
				}
			default:
				v.ValidatorAddress = append(v.ValidatorAddress, 0)
			}
		case "height":
			v.Height += int64(m.Param)
		case "round":
			v.Round += int64(m.Param)
		case "type":
			v.Type = byte(m.Param)
		case "sigblock":
			ob := blockOf(blocks, m.Param).id()
			if !ob.Equals(v.BlockID) {
				signBlock = ob
				sigMut = true
			}
		case "sigflip", "signil", "sigsecp", "sigzero":
			post = m.Kind
			flip = m.Param
			sigMut = true
		}
	}
	tmp := *v
	tmp.BlockID = signBlock
	sig := signWith(vc.keyOf[val], types.SignBytes(chainID, &tmp))
	switch post {
	case "":
		v.Signature = sig
	case "sigflip":
		f := ((flip % 512) + 512) % 512
		sig[f/8] ^= 1 << uint(f%8)
		v.Signature = sig
	case "signil":
		v.Signature = nil
	case "sigsecp":
		var s2 crypto.SignatureSecp256k1
		copy(s2[:], sig[:])
		v.Signature = s2
	case "sigzero":
		v.Signature = crypto.SignatureEd25519{}
	}
	bv := builtVote{vote: v, idx: v.ValidatorIndex, block: s.Block}
	if s.Block < 0 || s.Block >= len(blocks) {
		bv.block = -1
	}
	bv.sigValid = !sigMut && bv.idx >= 0 && bv.idx < vc.n && vc.keyOf[bv.idx] == vc.keyOf[val]
	if v.Signature != nil {
		bv.sig = string(v.Signature.Bytes())
	}
	return bv
}

// defects lists, in the order a validating receiver would look, what is wrong with the vote
// for a vote set of (height, round, typ).
func defects(vc *valCtx, bv builtVote, height, round int64, typ byte) (list []string, panicSig string) {
	v := bv.vote
	if bv.idx < 0 {
		list = append(list, "index")
		panicSig = sigUnsetPanic
	}
	if len(v.ValidatorAddress) == 0 {
		list = append(list, "address")
		panicSig = sigUnsetPanic
	}
	step := v.Height != height || v.Round != round || v.Type != typ
	if step {
		list = append(list, "step")
	}
	if bv.idx >= vc.n {
		list = append(list, "index")
		if panicSig == "" && !step {
			panicSig = sigRangePanic
		}
	}
	if bv.idx >= 0 && bv.idx < vc.n {
		if len(v.ValidatorAddress) > 0 && !bytes.Equal(v.ValidatorAddress, vc.addr(bv.idx)) {
			list = append(list, "address")
		}
		if !bv.sigValid {
			list = append(list, "signature")
		}
	}
	return
}

func errClass(err error) string {
	if err == nil {
		return ""
	}
	if _, ok := err.(*types.ErrVoteConflictingVotes); ok {
		return "conflict"
	}
	s := err.Error()
	switch {
	case strings.Contains(s, types.ErrVoteUnexpectedStep.Error()):
		return "step"
	case strings.Contains(s, types.ErrVoteInvalidValidatorIndex.Error()):
		return "index"
	case strings.Contains(s, types.ErrVoteInvalidValidatorAddress.Error()):
		return "address"
	case strings.Contains(s, types.ErrVoteInvalidSignature.Error()):
		return "signature"
	}
	return "other:" + s
}

// ---- reference model of one vote set ----

type refSet struct {
	vc        *valCtx
	nb        int
	first     []int             // validator -> block of the first valid vote (none if no vote)
	canon     []int             // validator -> block of the vote shared as "the" vote of the validator
	counted   map[int][]bool    // block -> validators whose vote counts for the block
	offered   map[[2]int]string // (validator, block) -> signature of a valid vote seen
	tracked   map[int]bool
	peerClaim map[int]bool
	peerSaid  map[string]bool
	maj       int
	// skipBlockBits: the case holds two distinct block ids with one map key; the per-block
	// bit arrays are then not compared, so that the first divergence reported is a substantive one
	skipBlockBits bool
	// statistics
	crossings, conflicts, conflictsAfterMaj, conflictsCounted, dups, rejected, tight int
}

func newRefSet(vc *valCtx, nb int) *refSet {
	m := &refSet{vc: vc, nb: nb, first: make([]int, vc.n), canon: make([]int, vc.n), counted: map[int][]bool{},
		offered: map[[2]int]string{}, tracked: map[int]bool{}, peerClaim: map[int]bool{}, peerSaid: map[string]bool{}, maj: none}
	for i := range m.first {
		m.first[i], m.canon[i] = none, none
	}
	return m
}

func (m *refSet) power(b int) *big.Int {
	s := new(big.Int)
	for i, c := range m.counted[b] {
		if c {
			s.Add(s, big.NewInt(m.vc.powers[i]))
		}
	}
	return s
}

func (m *refSet) seenPower() *big.Int {
	s := new(big.Int)
	for i, f := range m.first {
		if f != none {
			s.Add(s, big.NewInt(m.vc.powers[i]))
		}
	}
	return s
}

func (m *refSet) isCounted(b, i int) bool { c := m.counted[b]; return c != nil && c[i] }

func (m *refSet) count(b, i int) {
	if m.counted[b] == nil {
		m.counted[b] = make([]bool, m.vc.n)
	}
	m.counted[b][i] = true
}

func (m *refSet) peerMaj(peer string, b int) {
	if m.peerSaid[peer] {
		return // a peer gets to name one block
	}
	m.peerSaid[peer] = true
	m.tracked[b] = true
	m.peerClaim[b] = true
}

type expect struct {
	added    bool
	class    []string // acceptable error classes ("" = nil error)
	conflict int      // block the reported earlier vote must be for (none: not checked)
}

// apply feeds one vote that has no defect other than possibly being a repeat / conflict.
func (m *refSet) apply(bv builtVote) expect {
	i, b := bv.idx, bv.block
	known := m.isCounted(b, i) || m.canon[i] == b
	if known {
		quirk := !m.isCounted(b, i) && m.first[i] != b // known only because it displaced the shared vote
		if m.offered[[2]int{i, b}] == bv.sig {
			m.dups++
			if quirk {
				return expect{class: []string{"", "conflict"}, conflict: none}
			}
			return expect{class: []string{""}, conflict: none}
		}
		return expect{class: []string{"signature"}, conflict: none}
	}
	m.offered[[2]int{i, b}] = bv.sig
	if m.first[i] == none {
		m.first[i], m.canon[i] = b, b
		m.tracked[b] = true
		m.count(b, i)
		m.cross(b, i)
		return expect{added: true, class: []string{""}, conflict: none}
	}
	// a second, different vote of the same validator
	m.conflicts++
	if m.maj != none {
		m.conflictsAfterMaj++
	}
	e := expect{class: []string{"conflict"}, conflict: m.canon[i]}
	if m.maj == b {
		m.canon[i] = b // votes for the majority block get priority as the shared vote
	}
	if m.tracked[b] && m.peerClaim[b] {
		m.conflictsCounted++
		m.count(b, i)
		m.cross(b, i)
		e.added = true
	}
	return e
}

func (m *refSet) cross(b, i int) {
	if m.maj != none {
		return
	}
	after := m.power(b)
	if m.vc.moreThanTwoThirds(after) {
		m.maj = b
		m.crossings++
		for v, c := range m.counted[b] {
			if c {
				m.canon[v] = b
			}
		}
		// tight: removing the smallest positive contributor would lose the majority by <= 1 unit
		q := new(big.Int).Lsh(m.vc.total, 1)
		q.Div(q, big.NewInt(3))
		q.Add(q, big.NewInt(1)) // smallest integer sum that is a majority
		if after.Cmp(q) == 0 {
			m.tight++
		}
	}
}

// ---- comparison of an implementation vote set with the model ----

type failFn func(sig, f string, a ...any) bool

func bidStr(b types.BlockID) string {
	if b.IsZero() {
		return "nil-block"
	}
	return fmt.Sprintf("%X/%d/%X", b.Hash, b.PartsHeader.Total, b.PartsHeader.Hash)
}

func compareSet(fail failFn, vs *types.VoteSet, m *refSet, blocks []BID, typ byte, where string) bool {
	vc := m.vc
	got, ok := vs.TwoThirdsMajority()
	switch {
	case ok && m.maj == none:
		return fail("maj23-reported-without-quorum", "%s: TwoThirdsMajority reports %s but no block has more than 2/3 of the power (total %v)", where, bidStr(got), vc.total)
	case !ok && m.maj != none:
		return fail("maj23-not-reported", "%s: block %s has %v of %v power (> 2/3) but TwoThirdsMajority reports none", where, bidStr(blockOf(blocks, m.maj).id()), m.power(m.maj), vc.total)
	case ok && !got.Equals(blockOf(blocks, m.maj).id()):
		return fail("maj23-wrong-block", "%s: TwoThirdsMajority reports %s, the first majority was for %s", where, bidStr(got), bidStr(blockOf(blocks, m.maj).id()))
	}
	if vs.HasTwoThirdsMajority() != ok || vs.IsCommit() != (ok && typ == types.VoteTypePrecommit) {
		return fail("maj23-accessors-disagree", "%s: HasTwoThirdsMajority=%v IsCommit=%v with TwoThirdsMajority ok=%v type=%d", where, vs.HasTwoThirdsMajority(), vs.IsCommit(), ok, typ)
	}
	seen := m.seenPower()
	if w := vc.moreThanTwoThirds(seen); vs.HasTwoThirdsAny() != w {
		return fail("has-two-thirds-any", "%s: HasTwoThirdsAny=%v but the validators that voted hold %v of %v", where, vs.HasTwoThirdsAny(), seen, vc.total)
	}
	if w := seen.Cmp(vc.total) == 0; vs.HasAll() != w {
		return fail("has-all", "%s: HasAll=%v but the validators that voted hold %v of %v", where, vs.HasAll(), seen, vc.total)
	}
	ba := vs.BitArray()
	if ba.Size() != vc.n || vs.Size() != vc.n {
		return fail("bitarray-size", "%s: BitArray size %d / Size %d for %d validators", where, ba.Size(), vs.Size(), vc.n)
	}
	for i := 0; i < vc.n; i++ {
		if ba.GetIndex(i) != (m.first[i] != none) {
			return fail("bitarray", "%s: BitArray bit %d = %v, validator voted = %v", where, i, ba.GetIndex(i), m.first[i] != none)
		}
		g := vs.GetByIndex(i)
		if (g == nil) != (m.first[i] == none) {
			return fail("canonical-vote", "%s: GetByIndex(%d) nil=%v, validator voted = %v", where, i, g == nil, m.first[i] != none)
		}
		if g != nil {
			gb := none
			for b := -1; b < len(blocks); b++ {
				if g.BlockID.Equals(blockOf(blocks, b).id()) {
					gb = b
				}
			}
			sig, offered := m.offered[[2]int{i, gb}]
			if g.ValidatorIndex != i || !offered || g.Signature == nil || string(g.Signature.Bytes()) != sig {
				return fail("canonical-vote", "%s: GetByIndex(%d) is not a valid vote this validator sent: %v", where, i, g)
			}
			if m.isCounted(m.maj, i) && gb != m.maj {
				return fail("canonical-vote-not-majority", "%s: validator %d's vote for the majority block is counted, but its shared vote is for %s", where, i, bidStr(g.BlockID))
			}
			if gb != m.first[i] && gb != m.maj {
				return fail("canonical-vote-replaced", "%s: validator %d's shared vote is for %s: neither its first vote nor the majority block", where, i, bidStr(g.BlockID))
			}
		}
	}
	for b := -1; b < len(blocks) && !m.skipBlockBits; b++ {
		bb := vs.BitArrayByBlockID(blockOf(blocks, b).id())
		if (bb != nil) != m.tracked[b] {
			return fail("block-tracking", "%s: votes for %s tracked=%v, model %v", where, bidStr(blockOf(blocks, b).id()), bb != nil, m.tracked[b])
		}
		if bb != nil {
			for i := 0; i < vc.n; i++ {
				if bb.GetIndex(i) != m.isCounted(b, i) {
					return fail("block-bitarray", "%s: validator %d counted for %s = %v, model %v", where, i, bidStr(blockOf(blocks, b).id()), bb.GetIndex(i), m.isCounted(b, i))
				}
			}
		}
	}
	return false
}

// offer sends one vote through add and compares the outcome with the model. It returns true when
// the case must stop.
func offer(x *h.Ctx, fail failFn, m *refSet, bv builtVote, height, round int64, typ byte, where string,
	add func(*types.Vote) (bool, error), canonBefore func(int) *types.Vote) bool {
	def, panicSig := defects(m.vc, bv, height, round, typ)
	var before *types.Vote
	if len(def) == 0 {
		before = canonBefore(bv.idx)
	}
	var added bool
	var err error
	var pv any
	func() {
		defer func() { pv = recover() }()
		added, err = add(bv.vote)
	}()
	if pv != nil {
		sig := panicSig
		if sig == "" {
			sig = "addvote-panics"
		}
		// not routed through fail: the panic signatures keep their own root cause
		if x.Fail(sig, "%s: AddVote panicked on a vote with index=%d (of %d validators) address=%X height=%d round=%d type=%d: %v",
			where, bv.idx, m.vc.n, bv.vote.ValidatorAddress, bv.vote.Height, bv.vote.Round, bv.vote.Type, pv) {
			return true
		}
		m.rejected++
		return false // known: the vote is treated as rejected, nothing changed
	}
	if len(def) > 0 {
		m.rejected++
		if added || err == nil {
			return fail("invalid-vote-accepted:"+def[0], "%s: vote with defect(s) %v gave (added=%v, err=%v)", where, def, added, err)
		}
		cl := errClass(err)
		okc := false
		for _, d := range def {
			if d == cl {
				okc = true
			}
		}
		if !okc {
			return fail("invalid-vote-wrong-error", "%s: vote with defect(s) %v was rejected with %q", where, def, err)
		}
		return false
	}
	e := m.apply(bv)
	cl := errClass(err)
	okc := false
	for _, c := range e.class {
		if c == cl {
			okc = true
		}
	}
	if !okc {
		switch {
		case e.class[0] == "conflict":
			return fail("conflict-not-reported", "%s: a second, different, validly signed vote of validator %d gave err=%v", where, bv.idx, err)
		case e.class[0] == "" && e.added:
			return fail("valid-vote-rejected", "%s: first valid vote of validator %d gave (added=%v, err=%v)", where, bv.idx, added, err)
		default:
			return fail("repeat-vote-wrong-error", "%s: repeated vote of validator %d gave err=%v, want class %v", where, bv.idx, err, e.class)
		}
	}
	if added != e.added {
		if cl == "conflict" {
			return fail("conflict-added-flag", "%s: conflicting vote of validator %d for %s: added=%v, want %v (peer claim for that block: %v)",
				where, bv.idx, bidStr(bv.vote.BlockID), added, e.added, m.peerClaim[bv.block])
		}
		return fail("added-flag", "%s: vote of validator %d: added=%v, want %v (err=%v)", where, bv.idx, added, e.added, err)
	}
	if ce, ok := err.(*types.ErrVoteConflictingVotes); ok {
		if ce.VoteB != bv.vote || ce.VoteA == nil || ce.VoteA.ValidatorIndex != bv.idx || ce.VoteA.BlockID.Equals(bv.vote.BlockID) || ce.VoteA != before {
			return fail("conflict-evidence", "%s: conflict error does not carry the validator's earlier different vote and the new one: A=%v B=%v", where, ce.VoteA, ce.VoteB)
		}
	}
	return false
}

// ---- commits ----

type Tamper struct {
	Kind  string `json:"kind"`
	At    int    `json:"at"`
	Param int    `json:"param"`
}

var tamperKinds = []string{"sigflip", "block", "block-resign", "height-nosign", "round-nosign", "type-nosign", "height-resign", "type-resign", "round-resign",
	"nil", "nil-all", "swap", "dup", "truncate", "extend", "index-field"}

// refVerifyCommit is the harness's own statement of a valid commit: one slot per validator, every
// present precommit is a precommit of that height, all of one round, signed (std ed25519 over the
// hand-written canonical sign bytes) by the validator of its slot, and the power of those for
// blockID exceeds 2/3 of the total.
func refVerifyCommit(vc *valCtx, blockID types.BlockID, height int64, c *types.Commit) (bool, string) {
	if len(c.Precommits) != vc.n {
		return false, "size"
	}
	tally := new(big.Int)
	round, haveRound := int64(0), false
	for i, p := range c.Precommits {
		if p == nil {
			continue
		}
		if p.Height != height {
			return false, "height"
		}
		if !haveRound {
			round, haveRound = p.Round, true
		}
		if p.Round != round {
			return false, "round"
		}
		if p.Type != types.VoteTypePrecommit {
			return false, "type"
		}
		sig, ok := p.Signature.(crypto.SignatureEd25519)
		if !ok {
			return false, "signature"
		}
		pub := keys[vc.keyOf[i]].pub
		if !stded.Verify(stded.PublicKey(pub[:]), refSignBytes(chainID, p.Height, p.Round, p.Type, p.BlockID), sig[:]) {
			return false, "signature"
		}
		if p.BlockID.Equals(blockID) {
			tally.Add(tally, big.NewInt(vc.powers[i]))
		}
	}
	if !vc.moreThanTwoThirds(tally) {
		return false, "power"
	}
	return true, ""
}

func cloneCommit(c *types.Commit) *types.Commit {
	out := &types.Commit{BlockID: c.BlockID, Precommits: make([]*types.Vote, len(c.Precommits))}
	for i, p := range c.Precommits {
		if p != nil {
			out.Precommits[i] = p.Copy()
		}
	}
	return out
}

func resign(vc *valCtx, slot int, v *types.Vote) {
	v.Signature = signWith(vc.keyOf[slot], types.SignBytes(chainID, v))
}

func allNil(c *types.Commit) bool {
	for _, p := range c.Precommits {
		if p != nil {
			return false
		}
	}
	return len(c.Precommits) > 0
}

// verdicts runs both verifiers on (a fresh copy of) the commit.
func verdicts(fail failFn, vc *valCtx, blockID types.BlockID, height int64, c *types.Commit, what string) (implOK, refOK bool, stop bool) {
	var err error
	var pv any
	func() {
		defer func() { pv = recover() }()
		err = vc.set.VerifyCommit(chainID, blockID, height, cloneCommit(c))
	}()
	if pv != nil {
		if allNil(c) {
			return false, false, fail(sigAllNil, "VerifyCommit panicked on %s (a commit whose %d precommit slots are all empty): %v", what, len(c.Precommits), pv)
		}
		return false, false, fail("verifycommit-panics", "VerifyCommit panicked on %s: %v", what, pv)
	}
	refOK, _ = refVerifyCommit(vc, blockID, height, c)
	return err == nil, refOK, false
}

func checkCommit(x *h.Ctx, fail failFn, vs *types.VoteSet, m *refSet, blocks []BID, height int64, tampers []Tamper, where string) bool {
	vc := m.vc
	var commit *types.Commit
	var pv any
	func() {
		defer func() { pv = recover() }()
		commit = vs.MakeCommit()
	}()
	if pv != nil {
		return fail("makecommit-panics", "%s: MakeCommit panicked although a majority is reported: %v", where, pv)
	}
	maj := blockOf(blocks, m.maj).id()
	if !commit.BlockID.Equals(maj) || len(commit.Precommits) != vc.n {
		return fail("commit-shape", "%s: MakeCommit is for %s with %d slots, want %s with %d", where, bidStr(commit.BlockID), len(commit.Precommits), bidStr(maj), vc.n)
	}
	for i, p := range commit.Precommits {
		if (p == nil) != (m.first[i] == none) {
			return fail("commit-shape", "%s: commit slot %d empty=%v, validator voted=%v", where, i, p == nil, m.first[i] != none)
		}
		if m.isCounted(m.maj, i) && !p.BlockID.Equals(maj) {
			return fail("commit-misses-majority-vote", "%s: commit slot %d carries a vote for %s although the validator's vote for the majority block was counted", where, i, bidStr(p.BlockID))
		}
	}
	implOK, refOK, stop := verdicts(fail, vc, maj, height, commit, "the commit made from the majority")
	if stop {
		return true
	}
	if !implOK {
		err := vc.set.VerifyCommit(chainID, maj, height, cloneCommit(commit))
		return fail("commit-from-majority-fails-verifycommit", "%s: VerifyCommit rejects the commit assembled from the reported majority: %v", where, err)
	}
	if !refOK {
		_, why := refVerifyCommit(vc, maj, height, commit)
		return fail("commit-from-majority-fails-independent-verifier", "%s: the independent verifier rejects the commit assembled from the reported majority (%s)", where, why)
	}
	if !maj.IsZero() {
		if err := cloneCommit(commit).ValidateBasic(); err != nil {
			return fail("commit-validatebasic", "%s: ValidateBasic rejects the commit made from the majority: %v", where, err)
		}
		cc := cloneCommit(commit)
		if cc.Height() != height || cc.Round() != vs.Round() || cc.Size() != vc.n || !cc.IsCommit() {
			return fail("commit-accessors", "%s: commit reports height %d round %d size %d", where, cc.Height(), cc.Round(), cc.Size())
		}
	}
	x.Label("commit-verified")
	var present []int
	for i, p := range commit.Precommits {
		if p != nil {
			present = append(present, i)
		}
	}
	for _, t := range tampers {
		c := cloneCommit(commit)
		at := present[((t.At%len(present))+len(present))%len(present)]
		other := ((t.Param % vc.n) + vc.n) % vc.n
		v := c.Precommits[at]
		mustFail := false
		switch t.Kind {
		case "sigflip":
			s := v.Signature.(crypto.SignatureEd25519)
			f := ((t.Param % 512) + 512) % 512
			s[f/8] ^= 1 << uint(f%8)
			v.Signature = s
			mustFail = true
		case "block", "block-resign":
			nb := blockOf(blocks, t.Param%(len(blocks)+1)-1).id()
			if nb.Equals(v.BlockID) {
				continue
			}
			v.BlockID = nb
			if t.Kind == "block-resign" {
				resign(vc, at, v)
			} else {
				mustFail = true
			}
		case "height-nosign", "height-resign":
			v.Height += int64(1 + other)
			if t.Kind == "height-resign" {
				resign(vc, at, v)
			}
			mustFail = true
		case "round-nosign", "round-resign":
			v.Round += int64(1 + other)
			if t.Kind == "round-resign" {
				resign(vc, at, v) // a valid precommit of another round: legitimate when it is alone
				mustFail = len(present) > 1
			} else {
				mustFail = true
			}
		case "type-nosign", "type-resign":
			v.Type = types.VoteTypePrevote
			if t.Kind == "type-resign" {
				resign(vc, at, v)
			}
			mustFail = true
		case "nil":
			c.Precommits[at] = nil
			if len(present) == 1 {
				mustFail = true
			}
		case "nil-all":
			for i := range c.Precommits {
				c.Precommits[i] = nil
			}
			mustFail = true
		case "swap":
			if other == at {
				continue
			}
			c.Precommits[at], c.Precommits[other] = c.Precommits[other], c.Precommits[at]
			mustFail = true
		case "dup":
			if other == at {
				continue
			}
			c.Precommits[other] = v.Copy()
			mustFail = true
		case "truncate":
			c.Precommits = c.Precommits[:len(c.Precommits)-1]
			mustFail = true
		case "extend":
			c.Precommits = append(c.Precommits, nil)
			mustFail = true
		case "index-field": // fields no signature covers
			v.ValidatorIndex = other
			v.ValidatorAddress = append([]byte{}, vc.addr(other)...)
		default:
			continue
		}
		what := fmt.Sprintf("the commit with tampering %s at slot %d (param %d)", t.Kind, at, t.Param)
		implOK, refOK, stop := verdicts(fail, vc, maj, height, c, what)
		if stop {
			return true
		}
		if x.Failed() {
			return true
		}
		var pv any
		func() {
			defer func() { pv = recover() }()
			cloneCommit(c).ValidateBasic()
		}()
		if pv != nil {
			if allNil(c) {
				if fail(sigAllNil, "Commit.ValidateBasic panicked on %s: %v", what, pv) {
					return true
				}
			} else if fail("commit-validatebasic-panics", "Commit.ValidateBasic panicked on %s: %v", what, pv) {
				return true
			}
		}
		if mustFail && implOK {
			return fail("tampered-commit-accepted:"+t.Kind, "%s: VerifyCommit accepts %s", where, what)
		}
		if mustFail && refOK {
			return fail("harness-verifier-accepts-tampered-commit", "%s: the independent verifier accepts %s", where, what)
		}
		if implOK != refOK {
			return fail("commit-verdicts-differ:"+t.Kind, "%s: VerifyCommit ok=%v, independent verifier ok=%v on %s", where, implOK, refOK, what)
		}
		x.Label("tamper:" + t.Kind)
		if mustFail {
			x.Label("tampered-commit-rejected")
		} else if implOK {
			x.Label("tampered-commit-still-valid")
		}
	}
	return false
}

// mkFail wraps x.Fail: divergences in cases that sit in the region of a listed systematic defect
// (overflowing quorum arithmetic, colliding block keys) carry that defect's signature; it returns
// true whenever the case must stop (a new violation, or a known systematic defect after which the
// model and the code have legitimately diverged).
func mkFail(x *h.Ctx, vc *valCtx, blocks []BID) failFn {
	collide := hasCollidingPair(blocks)
	return func(sig, f string, a ...any) bool {
		switch {
		case sig == sigAllNil:
			return x.Fail(sig, f, a...) // does not make model and code diverge
		case collide:
			sig = sigCollision
		case vc.overflow:
			sig = sigOverflow
		}
		x.Fail(sig, f, a...)
		return true
	}
}

// ---- leg 1: one vote set ----

type Ev struct {
	Op   string `json:"op"` // vote | maj23
	Peer string `json:"peer,omitempty"`
	VoteSpec
}

type VSCase struct {
	Powers  []int64  `json:"powers"` // by validator index (validators sorted by address)
	Height  int64    `json:"height"`
	Round   int64    `json:"round"`
	Type    int      `json:"type"`
	Blocks  []BID    `json:"blocks"`
	Events  []Ev     `json:"events"`
	Tampers []Tamper `json:"tampers,omitempty"`
	Via     int      `json:"via,omitempty"` // how the validator set object came to be (newValCtxVia)
}

var mutKinds = []string{"index", "index", "addr", "as", "height", "round", "type", "sigflip", "sigblock", "signil", "sigsecp", "sigzero"}

func genMut(t *rapid.T, n, nb int) Mut {
	m := Mut{Kind: rapid.SampledFrom(mutKinds).Draw(t, "mut")}
	switch m.Kind {
	case "index":
		m.Param = rapid.OneOf(rapid.SampledFrom([]int{-1, -1, -2, -1 << 31, -1 << 62, n, n, n + 1, 1 << 31, 1 << 40}), rapid.IntRange(-2, n+2)).Draw(t, "index")
	case "addr":
		m.Param = rapid.IntRange(-4, n-1).Draw(t, "addr")
	case "as":
		m.Param = rapid.IntRange(0, n-1).Draw(t, "as")
	case "height", "round":
		m.Param = rapid.SampledFrom([]int{-1, 1, 2, 1 << 40}).Draw(t, "delta")
	case "type":
		m.Param = rapid.SampledFrom([]int{0, 1, 2, 3, 255}).Draw(t, "type")
	case "sigflip":
		m.Param = rapid.IntRange(0, 511).Draw(t, "bit")
	case "sigblock":
		m.Param = rapid.IntRange(-1, nb-1).Draw(t, "sigblock")
	}
	return m
}

func genSpec(t *rapid.T, n, nb, fav int, mutP int) VoteSpec {
	s := VoteSpec{Val: rapid.IntRange(0, n-1).Draw(t, "val")}
	if rapid.IntRange(0, 99).Draw(t, "favour") < 62 {
		s.Block = fav
	} else {
		s.Block = rapid.IntRange(-1, nb-1).Draw(t, "blockIdx")
	}
	if rapid.IntRange(0, 99).Draw(t, "mutate") < mutP {
		s.Muts = append(s.Muts, genMut(t, n, nb))
		if rapid.IntRange(0, 5).Draw(t, "second") == 0 {
			s.Muts = append(s.Muts, genMut(t, n, nb))
		}
	}
	return s
}

// genFav picks the block most votes of the stream go to (the nil block one time in five).
func genFav(t *rapid.T, nb int) int {
	if rapid.IntRange(0, 4).Draw(t, "favNil") == 0 {
		return -1
	}
	return rapid.IntRange(0, nb-1).Draw(t, "favourite")
}

var peers = []string{"", "p1", "p2", "p3"}

func genVSCase(t *rapid.T) VSCase {
	var c VSCase
	n := rapid.OneOf(rapid.IntRange(1, 4), rapid.IntRange(1, 7), rapid.IntRange(1, maxVals)).Draw(t, "n")
	c.Powers = genPowers(t, n)
	c.Via = genVia(t)
	c.Height = rapid.SampledFrom([]int64{1, 2, 7}).Draw(t, "height")
	c.Round = rapid.SampledFrom([]int64{0, 0, 1, 3}).Draw(t, "round")
	c.Type = rapid.SampledFrom([]int{1, 2, 2}).Draw(t, "type")
	c.Blocks = genBlocks(t)
	nb := len(c.Blocks)
	fav := genFav(t, nb)
	ne := rapid.OneOf(rapid.IntRange(1, 60), rapid.IntRange(1, 3*n+4)).Draw(t, "nevents")
	for i := 0; i < ne; i++ {
		k := rapid.IntRange(0, 99).Draw(t, "op")
		switch {
		case k < 9:
			c.Events = append(c.Events, Ev{Op: "maj23", Peer: rapid.SampledFrom(peers).Draw(t, "peer"), VoteSpec: VoteSpec{Block: rapid.IntRange(-1, nb-1).Draw(t, "claim")}})
		case k < 17 && len(c.Events) > 0:
			c.Events = append(c.Events, c.Events[rapid.IntRange(0, len(c.Events)-1).Draw(t, "repeat")])
		default:
			c.Events = append(c.Events, Ev{Op: "vote", VoteSpec: genSpec(t, n, nb, fav, 22)})
		}
	}
	nt := rapid.IntRange(0, 3).Draw(t, "ntampers")
	for i := 0; i < nt; i++ {
		c.Tampers = append(c.Tampers, Tamper{Kind: rapid.SampledFrom(tamperKinds).Draw(t, "tamper"), At: rapid.IntRange(0, maxVals-1).Draw(t, "at"), Param: rapid.IntRange(0, 511).Draw(t, "tparam")})
	}
	return c
}

func powerClass(vc *valCtx) string {
	switch {
	case vc.overflow:
		return "power:2*total-overflows-int64"
	case vc.total.BitLen() > 61:
		return "power:total-just-below-2^62"
	case vc.total.BitLen() > 32:
		return "power:large"
	}
	return "power:small"
}

func runVSCase(c VSCase, x *h.Ctx) {
	if len(c.Powers) < 1 || len(c.Powers) > maxVals || c.Height == 0 {
		return
	}
	vc, how := newValCtxVia(c.Powers, c.Via)
	x.Labelf("validator-set:%s", how)
	typ := byte(c.Type)
	vs := types.NewVoteSet(chainID, c.Height, c.Round, typ, vc.set)
	m := newRefSet(vc, len(c.Blocks))
	fail := mkFail(x, vc, c.Blocks)
	x.Label(powerClass(vc))
	if hasCollidingPair(c.Blocks) {
		x.Label("blocks:colliding-key-pair")
		m.skipBlockBits = true
	}
	if compareSet(fail, vs, m, c.Blocks, typ, "empty vote set") {
		return
	}
	committed := false
	nMaj23 := 0
	for ei, ev := range c.Events {
		where := fmt.Sprintf("event %d", ei)
		switch ev.Op {
		case "maj23":
			b := ev.Block
			if b < 0 || b >= len(c.Blocks) {
				b = -1
			}
			vs.SetPeerMaj23(ev.Peer, blockOf(c.Blocks, b).id())
			m.peerMaj(ev.Peer, b)
			nMaj23++
		case "vote":
			bv := buildVote(vc, c.Blocks, c.Height, c.Round, typ, ev.VoteSpec)
			where = fmt.Sprintf("event %d (vote by validator %d for %s, muts %v)", ei, ev.Val, bidStr(bv.vote.BlockID), ev.Muts)
			if offer(x, fail, m, bv, c.Height, c.Round, typ, where, vs.AddVote, vs.GetByIndex) {
				return
			}
		default:
			continue
		}
		if compareSet(fail, vs, m, c.Blocks, typ, "after "+where) {
			return
		}
		if m.maj != none && !committed && typ == types.VoteTypePrecommit {
			committed = true
			if checkCommit(x, fail, vs, m, c.Blocks, c.Height, nil, "at the majority, "+where) {
				return
			}
		}
	}
	if m.maj != none && typ == types.VoteTypePrecommit {
		if checkCommit(x, fail, vs, m, c.Blocks, c.Height, c.Tampers, "at the end of the stream") {
			return
		}
	}
	x.Labelf("validators:%s", bucket(vc.n))
	labelSet(x, m)
	if nMaj23 > 0 {
		x.Label("peer-claims")
	}
	if m.crossings > 0 {
		x.NonTrivial()
	}
}

func labelSet(x *h.Ctx, m *refSet) {
	if m.crossings > 0 {
		x.Label("majority-reached")
		if m.maj == -1 {
			x.Label("majority-for-nil")
		}
	} else {
		x.Label("no-majority")
	}
	if m.tight > 0 {
		x.Label("majority-at-exact-quorum")
	}
	if m.conflicts > 0 {
		x.Label("conflicting-votes")
	}
	if m.conflictsAfterMaj > 0 {
		x.Label("conflict-after-majority")
	}
	if m.conflictsCounted > 0 {
		x.Label("conflict-counted-by-peer-claim")
	}
	if m.dups > 0 {
		x.Label("duplicates")
	}
	if m.rejected > 0 {
		x.Label("invalid-votes")
	}
}

func bucket(n int) string {
	switch {
	case n == 1:
		return "1"
	case n <= 3:
		return "2-3"
	case n <= 7:
		return "4-7"
	}
	return "8-12"
}

func TestVoteSet(t *testing.T) {
	h.Check(t, h.Spec[VSCase]{Prop: "C15", Leg: "voteset", Gen: genVSCase, Run: runVSCase})
}

// ---- leg 2: HeightVoteSet ----

type HEv struct {
	Op    string `json:"op"` // vote | maj23 | setround
	Round int64  `json:"round"`
	Type  int    `json:"type,omitempty"`
	Peer  string `json:"peer,omitempty"`
	VoteSpec
}

type HVSCase struct {
	Powers []int64 `json:"powers"`
	Height int64   `json:"height"`
	Blocks []BID   `json:"blocks"`
	Events []HEv   `json:"events"`
	Via    int     `json:"via,omitempty"`
}

var hvsMutKinds = []string{"index", "addr", "as", "height", "sigflip", "sigblock", "signil"}

func genHVSCase(t *rapid.T) HVSCase {
	var c HVSCase
	n := rapid.OneOf(rapid.IntRange(1, 4), rapid.IntRange(1, 7)).Draw(t, "n")
	c.Powers = genPowers(t, n)
	c.Via = genVia(t)
	c.Height = rapid.SampledFrom([]int64{1, 5}).Draw(t, "height")
	c.Blocks = genBlocks(t)
	nb := len(c.Blocks)
	fav := genFav(t, nb)
	hotRound := int64(rapid.IntRange(0, 3).Draw(t, "hotRound"))
	hotType := rapid.IntRange(1, 2).Draw(t, "hotType")
	genRound := func() int64 {
		if rapid.IntRange(0, 99).Draw(t, "hot") < 55 {
			return hotRound
		}
		return rapid.OneOf(rapid.Int64Range(0, 5), rapid.SampledFrom([]int64{-1, 7, 1 << 40})).Draw(t, "voteRound")
	}
	genType := func() int {
		k := rapid.IntRange(0, 99).Draw(t, "typeSel")
		switch {
		case k < 50:
			return hotType
		case k < 96:
			return rapid.IntRange(1, 2).Draw(t, "voteType")
		}
		return rapid.SampledFrom([]int{0, 3, 255}).Draw(t, "badType")
	}
	ne := rapid.IntRange(1, 50).Draw(t, "nevents")
	for i := 0; i < ne; i++ {
		k := rapid.IntRange(0, 99).Draw(t, "op")
		switch {
		case k < 8:
			c.Events = append(c.Events, HEv{Op: "maj23", Round: genRound(), Type: genType(), Peer: rapid.SampledFrom(peers).Draw(t, "peer"), VoteSpec: VoteSpec{Block: rapid.IntRange(-1, nb-1).Draw(t, "claim")}})
		case k < 18:
			c.Events = append(c.Events, HEv{Op: "setround", Round: int64(rapid.IntRange(1, 2).Draw(t, "delta"))})
		case k < 25 && len(c.Events) > 0:
			c.Events = append(c.Events, c.Events[rapid.IntRange(0, len(c.Events)-1).Draw(t, "repeat")])
		default:
			e := HEv{Op: "vote", Round: genRound(), Type: genType(), Peer: rapid.SampledFrom(peers).Draw(t, "peer")}
			e.VoteSpec = genSpec(t, n, nb, fav, 0)
			if rapid.IntRange(0, 99).Draw(t, "mutate") < 12 {
				m := Mut{Kind: rapid.SampledFrom(hvsMutKinds).Draw(t, "mut")}
				switch m.Kind {
				case "index":
					m.Param = rapid.SampledFrom([]int{-1, n, n + 1, 1 << 40, 0}).Draw(t, "index")
				case "addr":
					m.Param = rapid.IntRange(-4, n-1).Draw(t, "addr")
				case "as":
					m.Param = rapid.IntRange(0, n-1).Draw(t, "as")
				case "height":
					m.Param = rapid.SampledFrom([]int{-1, 1}).Draw(t, "delta")
				case "sigflip":
					m.Param = rapid.IntRange(0, 511).Draw(t, "bit")
				case "sigblock":
					m.Param = rapid.IntRange(-1, nb-1).Draw(t, "sigblock")
				}
				e.Muts = []Mut{m}
			}
			c.Events = append(c.Events, e)
		}
	}
	return c
}

type rt struct {
	round int64
	typ   byte
}

func runHVSCase(c HVSCase, x *h.Ctx) {
	if len(c.Powers) < 1 || len(c.Powers) > maxVals || c.Height == 0 {
		return
	}
	vc, how := newValCtxVia(c.Powers, c.Via)
	x.Labelf("validator-set:%s", how)
	hvs := pbft.NewHeightVoteSet(chainID, c.Height, vc.set)
	fail := mkFail(x, vc, c.Blocks)
	x.Label(powerClass(vc))
	// model: tracked rounds = 0..round plus at most two catch-up rounds per peer
	cur := int64(0)
	sets := map[rt]*refSet{}
	tracked := map[int64]bool{}
	track := func(r int64) {
		if !tracked[r] {
			tracked[r] = true
			sets[rt{r, types.VoteTypePrevote}] = newRefSet(vc, len(c.Blocks))
			sets[rt{r, types.VoteTypePrecommit}] = newRefSet(vc, len(c.Blocks))
			if hasCollidingPair(c.Blocks) {
				sets[rt{r, types.VoteTypePrevote}].skipBlockBits = true
				sets[rt{r, types.VoteTypePrecommit}].skipBlockBits = true
			}
		}
	}
	track(0)
	catchup := map[string]int{}
	nCatchup, nRefused, nSetRound := 0, 0, 0
	implSet := func(r int64, t byte) *types.VoteSet {
		if t == types.VoteTypePrevote {
			return hvs.Prevotes(r)
		}
		return hvs.Precommits(r)
	}
	compareAll := func(where string, extra int64) bool {
		rounds := []int64{extra}
		for r := range tracked {
			if r != extra {
				rounds = append(rounds, r)
			}
		}
		sort.Slice(rounds, func(i, j int) bool { return rounds[i] < rounds[j] })
		for _, r := range rounds {
			for _, t := range []byte{types.VoteTypePrevote, types.VoteTypePrecommit} {
				vs := implSet(r, t)
				if (vs != nil) != tracked[r] {
					return fail("hvs-round-tracking", "%s: round %d type %d tracked=%v, model %v (current round %d)", where, r, t, vs != nil, tracked[r], cur)
				}
				if vs == nil {
					continue
				}
				if vs.Height() != c.Height || vs.Round() != r || vs.Type() != t {
					return fail("hvs-round-tracking", "%s: set for round %d type %d reports %d/%d/%d", where, r, t, vs.Height(), vs.Round(), vs.Type())
				}
				if compareSet(fail, vs, sets[rt{r, t}], c.Blocks, t, fmt.Sprintf("%s, set of round %d type %d", where, r, t)) {
					return true
				}
			}
		}
		if hvs.Round() != cur {
			return fail("hvs-round", "%s: Round()=%d, model %d", where, hvs.Round(), cur)
		}
		wantR, wantB := int64(-1), types.BlockID{}
		for r := cur; r >= 0; r-- {
			if mm := sets[rt{r, types.VoteTypePrevote}]; mm.maj != none {
				wantR, wantB = r, blockOf(c.Blocks, mm.maj).id()
				break
			}
		}
		gr, gb := hvs.POLInfo()
		if gr != wantR || !gb.Equals(wantB) {
			return fail("polinfo", "%s: POLInfo = (%d, %s), the last round <= %d with a prevote majority is (%d, %s)", where, gr, bidStr(gb), cur, wantR, bidStr(wantB))
		}
		return false
	}
	if compareAll("fresh height vote set", 0) {
		return
	}
	for ei, ev := range c.Events {
		where := fmt.Sprintf("event %d", ei)
		probe := int64(0)
		switch ev.Op {
		case "setround":
			nr := cur + ev.Round
			hvs.SetRound(nr)
			for r := cur + 1; r <= nr; r++ {
				track(r)
			}
			cur = nr
			nSetRound++
			where = fmt.Sprintf("event %d (SetRound %d)", ei, nr)
		case "maj23":
			b := ev.Block
			if b < 0 || b >= len(c.Blocks) {
				b = -1
			}
			hvs.SetPeerMaj23(ev.Round, byte(ev.Type), ev.Peer, blockOf(c.Blocks, b).id())
			if types.IsVoteTypeValid(byte(ev.Type)) && tracked[ev.Round] {
				sets[rt{ev.Round, byte(ev.Type)}].peerMaj(ev.Peer, b)
			}
			probe = ev.Round
		case "vote":
			typ := byte(ev.Type)
			bv := buildVote(vc, c.Blocks, c.Height, ev.Round, typ, ev.VoteSpec)
			where = fmt.Sprintf("event %d (vote by validator %d round %d type %d from peer %q for %s, muts %v)", ei, ev.Val, ev.Round, ev.Type, ev.Peer, bidStr(bv.vote.BlockID), ev.Muts)
			probe = ev.Round
			add := func(v *types.Vote) (bool, error) { return hvs.AddVote(v, ev.Peer) }
			// ignored expects the vote to be dropped silently before it reaches any vote set
			ignored := func() (added bool, err error) {
				defer func() {
					if pv := recover(); pv != nil {
						added, err = false, fmt.Errorf("panic: %v", pv)
					}
				}()
				return add(bv.vote)
			}
			if !types.IsVoteTypeValid(typ) {
				added, err := ignored()
				if added || err != nil {
					if fail("hvs-bad-type", "%s: vote of unknown type gave (%v, %v)", where, added, err) {
						return
					}
				}
				break
			}
			if !tracked[ev.Round] {
				if catchup[ev.Peer] >= 2 {
					nRefused++
					added, err := ignored()
					if added || err != nil {
						if fail("hvs-catchup-limit", "%s: a third unexpected round from one peer gave (%v, %v), want it ignored", where, added, err) {
							return
						}
					}
					break
				}
				catchup[ev.Peer]++
				nCatchup++
				track(ev.Round)
			}
			mm := sets[rt{ev.Round, typ}]
			canon := func(i int) *types.Vote {
				if vs := implSet(ev.Round, typ); vs != nil {
					return vs.GetByIndex(i)
				}
				return nil
			}
			if offer(x, fail, mm, bv, c.Height, ev.Round, typ, where, add, canon) {
				return
			}
		default:
			continue
		}
		if compareAll("after "+where, probe) {
			return
		}
	}
	// commits of every precommit majority
	var rs []int64
	for r := range tracked {
		rs = append(rs, r)
	}
	sort.Slice(rs, func(i, j int) bool { return rs[i] < rs[j] })
	anyMaj, pol := false, false
	for _, r := range rs {
		if sets[rt{r, types.VoteTypePrevote}].maj != none {
			anyMaj = true
			if r <= cur {
				pol = true
			}
		}
		mm := sets[rt{r, types.VoteTypePrecommit}]
		if mm.maj != none {
			anyMaj = true
			if checkCommit(x, fail, hvs.Precommits(r), mm, c.Blocks, c.Height, nil, fmt.Sprintf("precommits of round %d at the end", r)) {
				return
			}
		}
	}
	agg := newRefSet(vc, 0)
	for _, mm := range sets {
		agg.crossings += mm.crossings
		agg.tight += mm.tight
		agg.conflicts += mm.conflicts
		agg.conflictsAfterMaj += mm.conflictsAfterMaj
		agg.conflictsCounted += mm.conflictsCounted
		agg.dups += mm.dups
		agg.rejected += mm.rejected
	}
	labelSet(x, agg)
	x.Labelf("validators:%s", bucket(vc.n))
	if nCatchup > 0 {
		x.Label("catchup-round-created")
	}
	if nRefused > 0 {
		x.Label("catchup-round-refused")
	}
	if nSetRound > 0 {
		x.Label("setround")
	}
	if pol {
		x.Label("pol-round-found")
	}
	if anyMaj || nCatchup > 0 {
		x.NonTrivial()
	}
}

func TestHeightVoteSet(t *testing.T) {
	h.Check(t, h.Spec[HVSCase]{Prop: "C15", Leg: "hvs", Gen: genHVSCase, Run: runHVSCase})
}
