package c02

import (
	"bytes"
	"fmt"
	"testing"

	"pgregory.net/rapid"

	"github.com/dappledger/AnnChain/gemmill/consensus/pbft"
	sm "github.com/dappledger/AnnChain/gemmill/state"
	"github.com/dappledger/AnnChain/gemmill/types"

	"verif/internal/h"
	"verif/internal/sim"
)

// Leg "path": adversarial simulator runs in which Byzantine proposers (real keys, < 1/3 power)
// propose MUTANT blocks; after every commit of every honest node the harness re-validates what
// the node stored — the block against the node's previous block, the toy application's hash
// chain and the validator set; the seen commit stored with it; the LastCommit embedded in the
// next block — with the independent predicate and its own signature-by-signature tally.

type PathCase struct {
	Powers []int64  `json:"powers"`
	Byz    []int    `json:"byz"`
	Ops    []sim.Op `json:"ops"`
	Muts   []Mut    `json:"muts"` // consumed in order by "mutprop" ops
}

var pathKinds = []string{
	"deliver", "deliver", "deliver", "deliver", "deliver", "deliver",
	"own", "own", "own", "timeout", "timeout",
	"fair", "fair", "fair",
	"mutprop", "mutprop", "mutprop", "byzvote", "byzprop", "split", "drop", "sync",
}

func genPathCase(t *rapid.T) PathCase {
	n := rapid.IntRange(4, 7).Draw(t, "n")
	ps := make([]int64, n)
	for i := range ps {
		ps[i] = 1
	}
	nb := rapid.IntRange(1, (n-1)/3).Draw(t, "nbyz")
	var byz []int
	first := rapid.IntRange(0, n-1).Draw(t, "byzFirst")
	for i := 0; i < nb; i++ {
		byz = append(byz, (first+i)%n)
	}
	c := PathCase{Powers: ps, Byz: byz}
	c.Ops = rapid.SliceOfN(rapid.Custom(func(t *rapid.T) sim.Op {
		return sim.Op{K: rapid.SampledFrom(pathKinds).Draw(t, "k"), N: rapid.IntRange(0, 63).Draw(t, "n"), A: rapid.IntRange(0, 1023).Draw(t, "a"), B: rapid.IntRange(0, 1023).Draw(t, "b"), C: rapid.IntRange(0, 1023).Draw(t, "c")}
	}), 20, 220).Draw(t, "ops")
	all := append(append([]string{}, commitMuts...), headerMuts...)
	c.Muts = rapid.SliceOfN(rapid.Custom(func(t *rapid.T) Mut {
		return Mut{Kind: rapid.SampledFrom(all).Draw(t, "kind"), P: rapid.IntRange(0, 255).Draw(t, "p"), Fixup: rapid.Bool().Draw(t, "fixup")}
	}), 1, 12).Draw(t, "muts")
	return c
}

// verifyCommitIndependently: > 2/3 of vals' power precommitted bid at height, all in one round,
// every signature valid, each validator once (slot i belongs to validator i).
func verifyCommitIndependently(c *types.Commit, vals *types.ValidatorSet, bid types.BlockID, height int64) string {
	if c == nil {
		return "commit is nil"
	}
	if len(c.Precommits) != vals.Size() {
		return fmt.Sprintf("commit has %d slots for %d validators", len(c.Precommits), vals.Size())
	}
	var tally int64
	round := int64(-1)
	for i, pc := range c.Precommits {
		if pc == nil {
			continue
		}
		if pc.Type != types.VoteTypePrecommit || pc.Height != height {
			return fmt.Sprintf("slot %d is not a precommit of height %d", i, height)
		}
		if round == -1 {
			round = pc.Round
		} else if pc.Round != round {
			return fmt.Sprintf("precommits of rounds %d and %d in one commit", round, pc.Round)
		}
		_, val := vals.GetByIndex(i)
		if !val.PubKey.VerifyBytes(types.SignBytes(sim.ChainID, pc), pc.Signature) {
			return fmt.Sprintf("signature in slot %d does not verify", i)
		}
		if pc.BlockID.Equals(bid) {
			tally += val.VotingPower
		}
	}
	if 3*tally <= 2*sumPower(vals) {
		return fmt.Sprintf("only %d of %d power precommitted the block", tally, sumPower(vals))
	}
	return ""
}

// sumPower adds up the powers itself: the set's own TotalVotingPower() is a cache maintained by
// the code under test.
func sumPower(vals *types.ValidatorSet) int64 {
	var t int64
	for _, v := range vals.Validators {
		t += v.VotingPower
	}
	return t
}

func runPathCase(c PathCase, x *h.Ctx) {
	dir, doneDir := sim.TempDir("c02p-")
	defer doneDir()
	byz := make([]bool, len(c.Powers))
	for _, i := range c.Byz {
		byz[i] = true
	}
	net := sim.New(sim.Config{Powers: c.Powers, Byz: byz, Dir: dir})
	defer net.Close()
	d := sim.NewDriver(net)
	vals := net.Honest()[0].RS().Validators.Copy() // constant in this leg
	var problems []string
	commits, mutantsSent, mutantsPrevoted := 0, 0, 0
	appAfter := map[int][]byte{} // per node: toy application hash after its last committed block
	net.OnCommit = func(n *sim.Node, cm sim.Committed) {
		commits++
		hgt := cm.Height
		blk := n.Store.LoadBlock(hgt)
		meta := n.Store.LoadBlockMeta(hgt)
		if blk == nil || meta == nil {
			problems = append(problems, fmt.Sprintf("stored-block-unreadable|node %d height %d", n.ID, hgt))
			return
		}
		// the state the block had to extend, rebuilt from the node's own store
		// (the validator set with the accumulators of that height comes from the node's state: its
		// hash covers the accumulators, whose evolution is C16's subject, membership is constant here)
		prev := &sm.State{ChainID: sim.ChainID, LastBlockHeight: hgt - 1, Validators: n.CS.GetState().LastValidators, LastValidators: vals, AppHash: appAfter[n.ID]}
		if hgt > 1 {
			pm := n.Store.LoadBlockMeta(hgt - 1)
			pb := n.Store.LoadBlock(hgt - 1)
			prev.LastBlockID = types.BlockID{Hash: pm.Hash, PartsHeader: pm.PartsHeader}
			prev.ReceiptsHash = pb.Data.Hash()
		} else {
			prev.AppHash = []byte{}
		}
		lastVals := vals
		if hgt == 1 {
			lastVals = types.NewValidatorSet(nil)
		}
		if !satisfiesListedConditions(blk, prev, lastVals) {
			problems = append(problems, fmt.Sprintf("committed-block-violates-listed-conditions|node %d committed block %d (%x) that does not satisfy the property's conditions against its own previous block/state", n.ID, hgt, meta.Hash))
		}
		bid := types.BlockID{Hash: meta.Hash, PartsHeader: meta.PartsHeader}
		if msg := verifyCommitIndependently(n.Store.LoadSeenCommit(hgt), vals, bid, hgt); msg != "" {
			problems = append(problems, fmt.Sprintf("stored-seen-commit-does-not-verify|node %d height %d: %s", n.ID, hgt, msg))
		}
		if hgt > 1 {
			if msg := verifyCommitIndependently(blk.LastCommit, vals, prev.LastBlockID, hgt-1); msg != "" {
				problems = append(problems, fmt.Sprintf("embedded-last-commit-does-not-verify|node %d block %d: %s", n.ID, hgt, msg))
			}
			bc := n.Store.LoadBlockCommit(hgt - 1)
			if bc == nil || !bytes.Equal(bc.Hash(), blk.LastCommit.Hash()) {
				problems = append(problems, fmt.Sprintf("stored-block-commit-differs|node %d height %d", n.ID, hgt-1))
			}
		}
		appAfter[n.ID] = sim.AppHashOf(blk.AppHash, blk)
	}
	mi := 0
	for _, op := range c.Ops {
		if op.K == "mutprop" {
			if mi < len(c.Muts) && mutProposal(d, net, op, c.Muts[mi], &mutantsPrevoted) {
				mutantsSent++
			}
			mi++
		} else {
			d.Apply(op)
		}
		for _, p := range problems {
			i := bytes.IndexByte([]byte(p), '|')
			if x.Fail(p[:i], "%s", p[i+1:]) {
				return
			}
		}
		problems = problems[:0]
	}
	d.Sync()
	for i := 0; i < 200 && d.FairStep(); i++ {
	}
	for _, p := range problems {
		i := bytes.IndexByte([]byte(p), '|')
		if x.Fail(p[:i], "%s", p[i+1:]) {
			return
		}
	}
	x.Labelf("validators:%d", len(c.Powers))
	x.Labelf("commits:%s", bucketN(commits))
	if mutantsSent > 0 {
		x.Label("mutant-proposed")
	}
	if commits > 0 && mutantsSent > 0 {
		x.NonTrivial()
	}
}

func bucketN(n int) string {
	switch {
	case n == 0:
		return "0"
	case n <= 4:
		return "1-4"
	case n <= 12:
		return "5-12"
	}
	return ">12"
}

// mutProposal: if the proposer an honest node expects is Byzantine, it proposes a block that is
// valid except for one mutation, to every honest node.
func mutProposal(d *sim.Driver, net *sim.Net, op sim.Op, m Mut, prevoted *int) bool {
	var hs []*sim.Node
	for _, n := range net.Honest() {
		if n.Alive {
			hs = append(hs, n)
		}
	}
	if len(hs) == 0 {
		return false
	}
	// any honest node that currently expects a Byzantine proposer will do
	var t *sim.Node
	var b *sim.Node
	for i := 0; i < len(hs) && b == nil; i++ {
		cand := hs[(op.N+i)%len(hs)]
		prop := cand.RS().Validators.Proposer()
		for _, n := range net.Nodes {
			if !n.Honest && bytes.Equal(n.Addr, prop.Address) {
				b, t = n, cand
			}
		}
	}
	if b == nil {
		return false
	}
	rs := t.RS()
	st := t.CS.GetState()
	var lc *types.Commit
	if rs.Height > 1 {
		if rs.LastCommit == nil || !rs.LastCommit.HasTwoThirdsMajority() {
			return false
		}
		lc = rs.LastCommit.MakeCommit()
	}
	blk, _ := sim.MakeBlock(st, lc, b.ID, []types.Tx{types.Tx(fmt.Sprintf("mut-%d-%d", rs.Height, rs.Round))}, 512)
	g, err := reencode(blk)
	if err != nil {
		return false
	}
	if !applyMut(g, m, st, st.LastValidators, len(net.Nodes)+3) {
		return false
	}
	var mb *types.Block
	func() {
		defer func() { recover() }()
		mb, _ = reencode(g)
	}()
	if mb == nil || satisfiesListedConditions(mb, st, st.LastValidators) {
		return false
	}
	var parts *types.PartSet
	func() {
		defer func() { recover() }()
		parts = mb.MakePartSet(512)
	}()
	if parts == nil {
		return false
	}
	for _, msg := range sim.ProposalMsgs(b.ID, rs.Height, rs.Round, parts, -1, types.BlockID{}) {
		net.Broadcast(b.ID, msg)
	}
	// the Byzantine validators also vote for their mutant
	bid := types.BlockID{Hash: mb.Hash(), PartsHeader: parts.Header()}
	for _, bz := range net.Nodes {
		if bz.Honest {
			continue
		}
		for _, typ := range []byte{types.VoteTypePrevote, types.VoteTypePrecommit} {
			if len(bid.Hash) > 0 {
				v := sim.SignVote(bz.ID, rs.Validators, rs.Height, rs.Round, typ, bid)
				net.Broadcast(bz.ID, &pbft.VoteMessage{Vote: v})
			}
		}
	}
	return true
}

func TestPath(t *testing.T) {
	h.Check(t, h.Spec[PathCase]{Prop: "C02", Leg: "path", Gen: genPathCase, Run: runPathCase})
}
