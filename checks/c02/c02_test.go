// C02: every committed block is valid and carries a verifiable +2/3 commit.
// Leg "mutants": block validation must reject every block that breaks one of the conditions the
// property lists, must accept the genuine block, and must never panic.
package c02

import (
	"bytes"
	"fmt"
	"strings"
	"testing"

	"pgregory.net/rapid"

	"github.com/dappledger/AnnChain/gemmill/go-wire"
	sm "github.com/dappledger/AnnChain/gemmill/state"
	"github.com/dappledger/AnnChain/gemmill/types"

	"verif/internal/h"
	"verif/internal/sim"
)

func TestMain(m *testing.M) { h.Main(m) }

type Mut struct {
	Kind  string `json:"kind"`
	P     int    `json:"p,omitempty"`
	Fixup bool   `json:"fixup,omitempty"` // recompute the header hash that commits to the mutated part, isolating the deeper check
}

type Case struct {
	Powers  []int64 `json:"powers"`
	Heights int     `json:"heights"`          // honest heights committed before the block under test
	ValTx   int     `json:"valtx"`            // >0: a validator-set change is committed at height ValTx (if < Heights)
	ValUpd  int64   `json:"valupd,omitempty"` // >0: the same block also changes the power of validator 0 to this value
	NTxs    int     `json:"ntxs"`
	Muts    []Mut   `json:"muts"` // applied together (1 = single mutation, 2 = double)
}

var headerMuts = []string{
	"chainid", "height+1", "height-1", "height0", "heightneg",
	"lastblockid.hash", "lastblockid.parts.total", "lastblockid.parts.hash", "lastblockid.zero",
	"datahash", "datahash.nil", "lastcommithash", "lastcommithash.nil",
	"validatorshash", "validatorshash.lastvals", "apphash", "apphash.nil", "receiptshash",
	"data.addtx", "data.droptx", "data.nil",
}
var commitMuts = []string{
	"commit.nil", "commit.dropone", "commit.subquorum", "commit.allnil", "commit.empty", "commit.extra", "commit.short",
	"commit.dupvalidator", "commit.foreignheight", "commit.foreignround.one", "commit.prevote", "commit.badsig",
	"commit.wrongsigner", "commit.nilblock", "commit.otherblock", "commit.blockid",
}
var unjudgedMuts = []string{"numtxs", "proposer.nonvalidator", "time", "extra"}

func genCase(t *rapid.T) Case {
	n := rapid.IntRange(1, 5).Draw(t, "n")
	ps := make([]int64, n)
	kind := rapid.IntRange(0, 2).Draw(t, "powerKind")
	for i := range ps {
		switch kind {
		case 0:
			ps[i] = 1
		case 1:
			ps[i] = rapid.Int64Range(1, 6).Draw(t, "p")
		default:
			ps[i] = rapid.Int64Range(1, 1<<40).Draw(t, "p")
		}
	}
	c := Case{Powers: ps, Heights: rapid.IntRange(0, 3).Draw(t, "heights"), NTxs: rapid.IntRange(0, 3).Draw(t, "ntxs")}
	if c.Heights >= 2 && rapid.Bool().Draw(t, "valchange") {
		// (also in the last block: the commit of that height must still be judged by the old set)
		c.ValTx = rapid.IntRange(1, c.Heights).Draw(t, "valtxHeight")
		if rapid.Bool().Draw(t, "valupd") {
			c.ValUpd = rapid.Int64Range(1, 9).Draw(t, "valupdPower")
		}
	}
	all := append(append(append([]string{}, headerMuts...), commitMuts...), unjudgedMuts...)
	nm := rapid.SampledFrom([]int{0, 1, 1, 1, 1, 1, 2}).Draw(t, "nmuts")
	for i := 0; i < nm; i++ {
		c.Muts = append(c.Muts, Mut{Kind: rapid.SampledFrom(all).Draw(t, "kind"), P: rapid.IntRange(0, 255).Draw(t, "p"), Fixup: rapid.Bool().Draw(t, "fixup")})
	}
	return c
}

func flip(b []byte, p int) []byte {
	if len(b) == 0 {
		return []byte{byte(p) | 1}
	}
	out := append([]byte{}, b...)
	out[p%len(out)] ^= 1 << uint(p%8)
	return out
}

func reencode(b *types.Block) (*types.Block, error) {
	var n int
	var err error
	bz := wire.BinaryBytes(b)
	out := wire.ReadBinary(&types.Block{}, bytes.NewReader(bz), types.MaxBlockSize, &n, &err)
	if err != nil {
		return nil, err
	}
	return out.(*types.Block), nil
}

// judged says whether the property text obliges a rejection for the mutation kind.
func judged(kind string) bool {
	for _, u := range unjudgedMuts {
		if kind == u {
			return false
		}
	}
	return true
}

func runCase(c Case, x *h.Ctx) {
	dir, doneDir := sim.TempDir("c02-")
	defer doneDir()
	// one spare key (id len(Powers)) is outside the genesis set: used for validator changes and as
	// a foreign signer
	powers := append(append([]int64{}, c.Powers...), 0)
	net := sim.New(sim.Config{Powers: powers, Dir: dir})
	defer net.Close()
	d := sim.NewDriver(net)
	spare := len(c.Powers)
	for hgt := 1; hgt <= c.Heights; hgt++ {
		if c.ValTx == hgt {
			for _, n := range net.Honest() {
				n.Pool.Push(append(append([]byte{}, types.AdminTag...), []byte(fmt.Sprintf("valchange:%d:%d", spare, 2))...))
				if c.ValUpd > 0 {
					// an addition and a power update in one block (one EndBlock)
					n.Pool.Push(append(append([]byte{}, types.AdminTag...), []byte(fmt.Sprintf("valchange:%d:%d", 0, c.ValUpd))...))
				}
			}
		}
		if !d.RunFair(int64(hgt), 4000) {
			x.Label("base-run-stalled")
			return // base chain could not be built (liveness is C12's business)
		}
	}
	node := net.Honest()[0]
	if node.Store.Height() != int64(c.Heights) {
		x.Label("base-run-overshoot")
	}
	// let the node settle into the new height so that LastCommit is in place
	st := node.CS.GetState().Copy()
	rs := node.RS()
	var lc *types.Commit
	if st.LastBlockHeight > 0 {
		if rs.LastCommit == nil || !rs.LastCommit.HasTwoThirdsMajority() {
			x.Label("no-lastcommit")
			return
		}
		lc = rs.LastCommit.MakeCommit()
	}
	var txs []types.Tx
	for i := 0; i < c.NTxs; i++ {
		txs = append(txs, types.Tx(fmt.Sprintf("tx-%d", i)))
	}
	proposer := 0
	for i := range c.Powers {
		if st.Validators.HasAddress(sim.Key(i).PubKey().Address()) {
			proposer = i
			break
		}
	}
	genuine, _ := sim.MakeBlock(st, lc, proposer, txs, 512)
	validate := func(b *types.Block) (err error, panicked any) {
		defer func() {
			if p := recover(); p != nil {
				panicked = p
			}
		}()
		return node.CS.ValidateBlock(b), nil
	}
	g2, err := reencode(genuine)
	if err != nil {
		x.Fail("genuine-block-does-not-reencode", "%v", err)
		return
	}
	if err, p := validate(g2); err != nil || p != nil {
		if x.Fail("genuine-block-rejected", "a block built on the node's own state with its own last commit is rejected: err=%v panic=%v", err, p) {
			return
		}
	}
	x.Labelf("heights:%d", c.Heights)
	if c.ValTx > 0 {
		x.Label("validator-set-changed")
	}
	// the validator sets the node validates against, checked against the committed history: a
	// change made by block h is in force from height h+1 on; the commit of height h (embedded in
	// block h+1) is to be judged by the set of height h
	powersAt := func(height int) map[string]int64 {
		m := map[string]int64{}
		for i, p := range c.Powers {
			m[string(sim.Key(i).PubKey().Address())] = p
		}
		if c.ValTx > 0 && height > c.ValTx {
			m[string(sim.Key(spare).PubKey().Address())] = 2
			if c.ValUpd > 0 {
				m[string(sim.Key(0).PubKey().Address())] = c.ValUpd
			}
		}
		return m
	}
	sameSet := func(vs *types.ValidatorSet, want map[string]int64) bool {
		if vs.Size() != len(want) {
			return false
		}
		for _, v := range vs.Validators {
			if p, ok := want[string(v.Address)]; !ok || p != v.VotingPower {
				return false
			}
		}
		return true
	}
	if node.Store.Height() == int64(c.Heights) && c.Heights >= 1 {
		if !sameSet(st.LastValidators, powersAt(c.Heights)) {
			if x.Fail("last-validators-differ-from-committed-history", "after %d blocks (validator change in block %d) the node judges the commit of height %d by %v; the set in force at that height was %v", c.Heights, c.ValTx, c.Heights, st.LastValidators, powersAt(c.Heights)) {
				return
			}
		}
		if !sameSet(st.Validators, powersAt(c.Heights+1)) {
			if x.Fail("validators-differ-from-committed-history", "after %d blocks (validator change in block %d) the node's validator set for height %d is %v; the committed history gives %v", c.Heights, c.ValTx, c.Heights+1, st.Validators, powersAt(c.Heights+1)) {
				return
			}
		}
	}
	if len(c.Muts) == 0 {
		x.Label("genuine-only")
		return
	}

	// ---- build the mutant ----
	b, _ := reencode(genuine)
	mustReject := false
	desc := ""
	applied := 0
	lastVals := st.LastValidators
	for _, m := range c.Muts {
		ok := applyMut(b, m, st, lastVals, spare)
		if !ok {
			continue
		}
		applied++
		desc += m.Kind
		if m.Fixup {
			desc += "(fixup)"
		}
		desc += " "
		if judged(m.Kind) {
			mustReject = true
		}
	}
	if applied == 0 {
		x.Label("mutation-not-applicable")
		return
	}
	var mb *types.Block
	func() {
		defer func() {
			if p := recover(); p != nil {
				mb = nil // the mutant cannot even be encoded: a proposer cannot send it
			}
		}()
		mb, err = reencode(b)
	}()
	if mb == nil || err != nil {
		x.Label("mutant-not-encodable")
		return
	}
	// definition-level guard: if the mutant is, field for field, still a block satisfying the listed
	// conditions, it is not required to be rejected
	if mustReject && satisfiesListedConditions(mb, st, lastVals) {
		mustReject = false
		x.Label("mutation-neutral")
	}
	verr, p := validate(mb)
	for _, m := range c.Muts {
		x.Labelf("mut:%s", m.Kind)
	}
	if p != nil {
		// root cause from the shape of the mutant, not from the order of the mutation list
		cause := firstJudged(c.Muts)
		switch {
		case mb.Data == nil:
			cause = "nil-data"
		case mb.LastCommit == nil:
			cause = "nil-lastcommit"
		case len(mb.LastCommit.Precommits) > 0 && mb.LastCommit.FirstPrecommit() == nil:
			cause = "all-nil-precommits"
		}
		if x.Fail("validateblock-panics:"+cause, "ValidateBlock panicked on mutant [%s]: %v", desc, p) {
			return
		}
	} else if mustReject && verr == nil {
		if x.Fail("invalid-block-accepted:"+firstJudged(c.Muts), "ValidateBlock accepted a block with [%s] (heights=%d powers=%v)", desc, c.Heights, c.Powers) {
			return
		}
	}
	if mustReject {
		x.NonTrivial(fmt.Sprintf("%v|%d|%d|%v", c.Powers, c.Heights, c.ValTx, c.Muts))
	}
}

func firstJudged(ms []Mut) string {
	for _, m := range ms {
		if judged(m.Kind) {
			return m.Kind
		}
	}
	return ms[0].Kind
}

// satisfiesListedConditions is the independent validity predicate written from the property text:
// height and previous-block id, app/receipts hashes of the prior state, every header commitment
// equals the hash of what it commits to, and LastCommit re-verifies signature by signature with
// more than 2/3 of the previous validator set's power for exactly the previous block, in one round.
func satisfiesListedConditions(b *types.Block, st *sm.State, lastVals *types.ValidatorSet) bool {
	if b == nil || b.Header == nil || b.Data == nil || b.LastCommit == nil {
		return false
	}
	if b.ChainID != st.ChainID || b.Height != st.LastBlockHeight+1 || !b.LastBlockID.Equals(st.LastBlockID) {
		return false
	}
	if !bytes.Equal(b.AppHash, st.AppHash) || !bytes.Equal(b.ReceiptsHash, st.ReceiptsHash) {
		return false
	}
	fresh := &types.Data{Txs: b.Data.Txs, ExTxs: b.Data.ExTxs}
	if !bytes.Equal(b.DataHash, fresh.Hash()) {
		return false
	}
	fc := &types.Commit{BlockID: b.LastCommit.BlockID, Precommits: b.LastCommit.Precommits}
	if !bytes.Equal(b.LastCommitHash, fc.Hash()) {
		return false
	}
	if !bytes.Equal(b.ValidatorsHash, st.Validators.Hash()) {
		return false
	}
	if b.Height == 1 {
		return len(b.LastCommit.Precommits) == 0
	}
	pcs := b.LastCommit.Precommits
	if len(pcs) != lastVals.Size() {
		return false
	}
	var tally int64
	round := int64(-1)
	for i, pc := range pcs {
		if pc == nil {
			continue
		}
		if pc.Type != types.VoteTypePrecommit || pc.Height != b.Height-1 {
			return false
		}
		if round == -1 {
			round = pc.Round
		} else if pc.Round != round {
			return false
		}
		_, val := lastVals.GetByIndex(i)
		if !val.PubKey.VerifyBytes(types.SignBytes(st.ChainID, pc), pc.Signature) {
			return false
		}
		if pc.BlockID.Equals(st.LastBlockID) {
			tally += val.VotingPower
		}
	}
	return 3*tally > 2*sumPower(lastVals)
}

func resign(id int, v *types.Vote) {
	v.Signature = sim.Key(id).Sign(types.SignBytes(sim.ChainID, v))
}

func keyIDOf(addr []byte, n int) int {
	for i := 0; i <= n; i++ {
		if bytes.Equal(sim.Key(i).PubKey().Address(), addr) {
			return i
		}
	}
	return -1
}

func applyMut(b *types.Block, m Mut, st *sm.State, lastVals *types.ValidatorSet, spare int) bool {
	// a second mutation on top of one that removed the part it would work on does not apply
	if b.Data == nil && strings.HasPrefix(m.Kind, "data.") && m.Kind != "data.nil" {
		return false
	}
	if b.LastCommit == nil && strings.HasPrefix(m.Kind, "commit.") && m.Kind != "commit.nil" {
		return false
	}
	if b.LastCommit != nil && len(b.LastCommit.Precommits) != lastVals.Size() && (m.Kind == "commit.subquorum" || m.Kind == "commit.dropone" || m.Kind == "commit.dupvalidator") {
		return false // the slots no longer line up with the validators (an earlier mutation added or removed one)
	}
	fixCommit := func() {
		if m.Fixup && b.LastCommit != nil {
			fc := &types.Commit{BlockID: b.LastCommit.BlockID, Precommits: b.LastCommit.Precommits}
			b.LastCommitHash = fc.Hash()
		}
	}
	fixData := func() {
		if m.Fixup && b.Data != nil {
			fd := &types.Data{Txs: b.Data.Txs, ExTxs: b.Data.ExTxs}
			b.DataHash = fd.Hash()
			b.NumTxs = int64(len(b.Data.Txs) + len(b.Data.ExTxs))
		}
	}
	pcs := func() []*types.Vote {
		if b.LastCommit == nil {
			return nil
		}
		return b.LastCommit.Precommits
	}
	pickVote := func() (int, *types.Vote) {
		ps := pcs()
		for k := 0; k < len(ps); k++ {
			i := (m.P + k) % len(ps)
			if ps[i] != nil {
				return i, ps[i]
			}
		}
		return -1, nil
	}
	switch m.Kind {
	case "chainid":
		b.ChainID += "x"
	case "height+1":
		b.Height++
	case "height-1":
		b.Height--
	case "height0":
		if b.Height == 0 {
			return false
		}
		b.Height = 0
	case "heightneg":
		b.Height = -b.Height
	case "numtxs":
		b.NumTxs++
	case "lastblockid.hash":
		b.LastBlockID.Hash = flip(b.LastBlockID.Hash, m.P)
	case "lastblockid.parts.total":
		b.LastBlockID.PartsHeader.Total++
	case "lastblockid.parts.hash":
		b.LastBlockID.PartsHeader.Hash = flip(b.LastBlockID.PartsHeader.Hash, m.P)
	case "lastblockid.zero":
		if b.LastBlockID.IsZero() {
			return false
		}
		b.LastBlockID = types.BlockID{}
	case "datahash":
		b.DataHash = flip(b.DataHash, m.P)
	case "datahash.nil":
		b.DataHash = nil // FillHeader recomputes a nil hash from the data: neutral, unless data changed too
		return true
	case "lastcommithash":
		b.LastCommitHash = flip(b.LastCommitHash, m.P)
	case "lastcommithash.nil":
		b.LastCommitHash = nil
	case "validatorshash":
		b.ValidatorsHash = flip(b.ValidatorsHash, m.P)
	case "validatorshash.lastvals":
		hv := lastVals.Hash()
		if len(hv) == 0 || bytes.Equal(hv, b.ValidatorsHash) {
			hv = types.NewValidatorSet([]*types.Validator{{Address: sim.Key(spare).PubKey().Address(), PubKey: sim.Key(spare).PubKey(), VotingPower: 7}}).Hash()
		}
		b.ValidatorsHash = hv
	case "apphash":
		b.AppHash = flip(b.AppHash, m.P)
	case "apphash.nil":
		if len(b.AppHash) == 0 {
			return false
		}
		b.AppHash = nil
	case "receiptshash":
		b.ReceiptsHash = flip(b.ReceiptsHash, m.P)
	case "proposer.nonvalidator":
		b.ProposerAddress = sim.Key(spare + 7).PubKey().Address()
	case "time":
		b.Time = b.Time.Add(1e9)
	case "extra":
		b.Extra = []byte("extra")
	case "data.addtx":
		b.Data = &types.Data{Txs: append(append(types.Txs{}, b.Data.Txs...), types.Tx("injected")), ExTxs: b.Data.ExTxs}
		fixData()
		if m.Fixup {
			return false // a block with other, consistently hashed data is simply another valid block
		}
	case "data.droptx":
		if len(b.Data.Txs) == 0 {
			return false
		}
		b.Data = &types.Data{Txs: b.Data.Txs[1:], ExTxs: b.Data.ExTxs}
		if m.Fixup {
			return false
		}
	case "data.nil":
		b.Data = nil
	case "commit.nil":
		b.LastCommit = nil
	case "commit.dropone":
		i, _ := pickVote()
		if i < 0 {
			return false
		}
		b.LastCommit.Precommits[i] = nil
		fixCommit()
	case "commit.subquorum":
		// remove votes until the remaining power is at most 2/3
		ps := pcs()
		if len(ps) == 0 {
			return false
		}
		var tally int64
		for i, pc := range ps {
			if pc != nil {
				_, v := lastVals.GetByIndex(i)
				tally += v.VotingPower
			}
		}
		for k := 0; k < len(ps) && 3*tally > 2*sumPower(lastVals); k++ {
			i := (m.P + k) % len(ps)
			if ps[i] != nil {
				_, v := lastVals.GetByIndex(i)
				tally -= v.VotingPower
				ps[i] = nil
			}
		}
		fixCommit()
	case "commit.allnil":
		ps := pcs()
		if len(ps) == 0 {
			return false
		}
		for i := range ps {
			ps[i] = nil
		}
		fixCommit()
	case "commit.empty":
		if len(pcs()) == 0 {
			return false
		}
		b.LastCommit.Precommits = nil
		fixCommit()
	case "commit.extra":
		_, v := pickVote()
		if v == nil {
			return false
		}
		b.LastCommit.Precommits = append(b.LastCommit.Precommits, v.Copy())
		fixCommit()
	case "commit.short":
		if len(pcs()) == 0 {
			return false
		}
		b.LastCommit.Precommits = b.LastCommit.Precommits[:len(pcs())-1]
		fixCommit()
	case "commit.dupvalidator":
		// one validator's precommit copied into another validator's slot
		ps := pcs()
		i, v := pickVote()
		if v == nil || len(ps) < 2 {
			return false
		}
		j := (i + 1 + m.P/16%(len(ps)-1)) % len(ps)
		if j == i {
			return false
		}
		ps[j] = v.Copy()
		fixCommit()
	case "commit.foreignheight":
		ps := pcs()
		if len(ps) == 0 {
			return false
		}
		for i, pc := range ps {
			if pc != nil {
				id := keyIDOf(pc.ValidatorAddress, spare)
				pc.Height = pc.Height + 1 - int64(2*(m.P%2))
				if id >= 0 {
					resign(id, pc)
				}
				_ = i
			}
		}
		fixCommit()
	case "commit.foreignround.one":
		_, v := pickVote()
		if v == nil {
			return false
		}
		nn := 0
		for _, pc := range pcs() {
			if pc != nil {
				nn++
			}
		}
		if nn < 2 {
			return false // a single vote at another round is still one single round
		}
		v.Round++
		if id := keyIDOf(v.ValidatorAddress, spare); id >= 0 {
			resign(id, v)
		}
		fixCommit()
	case "commit.prevote":
		_, v := pickVote()
		if v == nil {
			return false
		}
		v.Type = types.VoteTypePrevote
		if id := keyIDOf(v.ValidatorAddress, spare); id >= 0 {
			resign(id, v)
		}
		fixCommit()
	case "commit.badsig":
		_, v := pickVote()
		if v == nil {
			return false
		}
		// a signature over different content by the same key
		w := v.Copy()
		w.Round += 9
		if id := keyIDOf(v.ValidatorAddress, spare); id >= 0 {
			resign(id, w)
			v.Signature = w.Signature
		} else {
			return false
		}
		fixCommit()
	case "commit.wrongsigner":
		_, v := pickVote()
		if v == nil {
			return false
		}
		resign(spare+3, v) // a key that is not that validator
		fixCommit()
	case "commit.nilblock", "commit.otherblock":
		ps := pcs()
		if len(ps) == 0 {
			return false
		}
		nb := types.BlockID{}
		if m.Kind == "commit.otherblock" {
			nb = types.BlockID{Hash: flip(st.LastBlockID.Hash, m.P), PartsHeader: st.LastBlockID.PartsHeader}
		}
		for _, pc := range ps {
			if pc != nil {
				pc.BlockID = nb
				if id := keyIDOf(pc.ValidatorAddress, spare); id >= 0 {
					resign(id, pc)
				}
			}
		}
		if m.Kind == "commit.otherblock" && m.P%2 == 0 {
			b.LastCommit.BlockID = nb
		}
		fixCommit()
	case "commit.blockid":
		if b.LastCommit == nil {
			return false
		}
		b.LastCommit.BlockID = types.BlockID{Hash: flip(b.LastCommit.BlockID.Hash, m.P), PartsHeader: b.LastCommit.BlockID.PartsHeader}
		fixCommit()
		return true
	default:
		return false
	}
	return true
}

func TestMutants(t *testing.T) {
	h.Check(t, h.Spec[Case]{Prop: "C02", Leg: "mutants", Gen: genCase, Run: runCase})
}
