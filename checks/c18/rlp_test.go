// RLP: typed round trip of the transaction / KV payload types (leg i, RLP part) and the
// type registry + differential oracle shared with the byte-level decode leg (leg iii):
// in-tree eth/rlp against reference github.com/ethereum/go-ethereum/rlp v1.8.27 on the same
// bytes and the same Go types.
package c18

import (
	"bytes"
	"fmt"
	"math/big"
	"reflect"
	"testing"

	rtypes "github.com/dappledger/AnnChain/chain/types"
	ecommon "github.com/dappledger/AnnChain/eth/common"
	etypes "github.com/dappledger/AnnChain/eth/core/types"
	irlp "github.com/dappledger/AnnChain/eth/rlp"
	refcommon "github.com/ethereum/go-ethereum/common"
	reftypes "github.com/ethereum/go-ethereum/core/types"
	refrlp "github.com/ethereum/go-ethereum/rlp"
	"pgregory.net/rapid"

	"verif/internal/h"
)

const codecRLP = "rlp"

// txMirror has exactly the RLP shape of eth/core/types.txdata (whose fields are unexported).
type txMirror struct {
	Nonce   uint64
	Price   *big.Int
	Gas     uint64
	To      *[20]byte `rlp:"nil"`
	Amount  *big.Int
	Payload []byte
	V, R, S *big.Int
}

// plain Go types decoded by both libraries
type rA struct {
	N uint64
	B *big.Int
	S []byte
	A [20]byte
	T string
	F bool
}
type rB struct {
	U8   uint8
	U16  uint16
	U32  uint32
	L    []uint64
	BB   [][]byte
	P    *rA      `rlp:"nil"`
	Rest []uint64 `rlp:"tail"`
}
type rC struct {
	X    interface{}
	Skip uint64 `rlp:"-"`
	Z    big.Int
	Q    *rA
	Arr  [3]uint16
}

type rlpTarget struct {
	name string
	typ  reflect.Type // nil for "tx" (library-specific transaction types)
}

var rlpTargets = []rlpTarget{
	{"tx", nil},
	{"txMirror", tOf(txMirror{})},
	{"KV", tOf(rtypes.KV{})},
	{"KVs", tOf(rtypes.KVs{})},
	{"rA", tOf(rA{})},
	{"rB", tOf(rB{})},
	{"rC", tOf(rC{})},
	{"rAs", tOf([]rA{})},
	{"uint64", tOf(uint64(0))},
	{"bigInt", tOf(big.Int{})},
	{"bytes", tOf([]byte{})},
	{"hash32", tOf([32]byte{})},
	{"string", tOf("")},
	{"any", tOf([]interface{}{})},
}

func rlpTargetByName(n string) *rlpTarget {
	for i := range rlpTargets {
		if rlpTargets[i].name == n {
			return &rlpTargets[i]
		}
	}
	return nil
}

// fillRLP fills a value of a plain Go type with content RLP can carry.
func (f *filler) fillRLP(rv reflect.Value, depth int) {
	rt := rv.Type()
	switch {
	case rt == bigIntType:
		b := f.bytes()
		if len(b) > 40 {
			b = b[:40]
		}
		rv.Set(reflect.ValueOf(*new(big.Int).SetBytes(b)))
		return
	case rt.Kind() == reflect.Ptr:
		nv := reflect.New(rt.Elem())
		f.fillRLP(nv.Elem(), depth)
		rv.Set(nv)
		return
	case rt.Kind() == reflect.Interface:
		if depth > 2 || f.s.N(2) == 0 {
			rv.Set(reflect.ValueOf(f.bytes()))
			return
		}
		n := f.s.N(4)
		l := make([]interface{}, n)
		for i := range l {
			f.fillRLP(reflect.ValueOf(&l[i]).Elem(), depth+1)
		}
		rv.Set(reflect.ValueOf(l))
		return
	case rt.Kind() == reflect.Struct:
		for i := 0; i < rt.NumField(); i++ {
			sf := rt.Field(i)
			tag := sf.Tag.Get("rlp")
			if tag == "-" {
				continue
			}
			if tag == "nil" && f.s.N(3) == 0 {
				continue
			}
			f.fillRLP(rv.Field(i), depth)
		}
		return
	case rt.Kind() == reflect.Slice && rt.Elem().Kind() != reflect.Uint8:
		n := 0
		if f.s.N(4) != 0 {
			n = 1 + f.s.N(4)
		}
		if f.s.N(30) == 0 {
			n = 50 + f.s.N(20) // payload > 55 bytes: long-form list header
		}
		sl := reflect.MakeSlice(rt, n, n)
		for i := 0; i < n; i++ {
			f.fillRLP(sl.Index(i), depth+1)
		}
		rv.Set(sl)
		return
	case rt.Kind() == reflect.Array && rt.Elem().Kind() != reflect.Uint8:
		for i := 0; i < rt.Len(); i++ {
			f.fillRLP(rv.Index(i), depth)
		}
		return
	}
	f.fill(rv) // scalars, byte slices / arrays, strings
}

// ---- leg: typed RLP round trip --------------------------------------------------------

type RLPCase struct {
	Type string `json:"type"` // tx | KV | KVs
	Tape Tape   `json:"tape"`
}

var rlpRTTypes = []string{"tx", "tx", "KV", "KVs"}

func genRLPRT(t *rapid.T) RLPCase {
	s := recSrc(t)
	c := RLPCase{Type: rlpRTTypes[s.N(len(rlpRTTypes))]}
	buildRLPValue(c.Type, s)
	c.Tape = s.recorded()
	return c
}

func buildRLPValue(typ string, s *src) any {
	f := &filler{s: s, codec: codecRLP}
	switch typ {
	case "KV":
		v := &rtypes.KV{}
		f.fillRLP(reflect.ValueOf(v).Elem(), 0)
		return v
	case "KVs":
		v := rtypes.KVs{}
		f.fillRLP(reflect.ValueOf(&v).Elem(), 0)
		return v
	default:
		v := &txMirror{}
		f.fillRLP(reflect.ValueOf(v).Elem(), 0)
		return v
	}
}

type txView struct {
	Nonce, Gas    uint64
	Price, Amount *big.Int
	To            *[20]byte
	Payload       []byte
	V, R, S       *big.Int
}

func viewIn(tx *etypes.Transaction) txView {
	v, r, s := tx.RawSignatureValues()
	out := txView{Nonce: tx.Nonce(), Gas: tx.Gas(), Price: tx.GasPrice(), Amount: tx.Value(), Payload: tx.Data(), V: v, R: r, S: s}
	if to := tx.To(); to != nil {
		a := [20]byte(*to)
		out.To = &a
	}
	return out
}

func viewRef(tx *reftypes.Transaction) txView {
	v, r, s := tx.RawSignatureValues()
	out := txView{Nonce: tx.Nonce(), Gas: tx.Gas(), Price: tx.GasPrice(), Amount: tx.Value(), Payload: tx.Data(), V: v, R: r, S: s}
	if to := tx.To(); to != nil {
		a := [20]byte(*to)
		out.To = &a
	}
	return out
}

func viewMirror(m *txMirror) txView {
	return txView{Nonce: m.Nonce, Gas: m.Gas, Price: m.Price, Amount: m.Amount, To: m.To, Payload: m.Payload, V: m.V, R: m.R, S: m.S}
}

func runRLPRT(c RLPCase, x *h.Ctx) {
	s := playSrc(c.Tape)
	s.N(len(rlpRTTypes))
	v := buildRLPValue(c.Type, s)
	var e1, e1b, eRef []byte
	var err, errRef error
	if p := safely(func() { e1, err = irlp.EncodeToBytes(v); e1b, _ = irlp.EncodeToBytes(v) }); p != nil {
		x.Fail("rlp-encode-panics", "%s: EncodeToBytes panicked: %v", c.Type, p)
		return
	}
	eRef, errRef = refrlp.EncodeToBytes(v)
	if (err == nil) != (errRef == nil) {
		x.Fail("rlp-encode-accept-differs", "%s: in-tree encode err=%v, reference err=%v", c.Type, err, errRef)
		return
	}
	if err != nil {
		x.Label("encode-error")
		return
	}
	if !bytes.Equal(e1, e1b) {
		if x.Fail("rlp-encode-nondeterministic", "%s: two encodings differ", c.Type) {
			return
		}
	}
	if !bytes.Equal(e1, eRef) {
		if x.Fail("rlp-encode-differs-from-reference", "%s: in-tree %x, reference %x", c.Type, e1, eRef) {
			return
		}
	}
	switch c.Type {
	case "tx":
		m := v.(*txMirror)
		tx := new(etypes.Transaction)
		var derr error
		if p := safely(func() { derr = irlp.DecodeBytes(e1, tx) }); p != nil {
			x.Fail("rlp-decode-of-own-encoding-panics", "tx: DecodeBytes panicked: %v", p)
			return
		}
		if derr != nil {
			x.Fail("rlp-decode-rejects-own-encoding", "tx: DecodeBytes(%x): %v", e1, derr)
			return
		}
		if d := normDiff(reflect.ValueOf(viewMirror(m)), reflect.ValueOf(viewIn(tx)), ""); d != "" {
			if x.Fail("rlp-roundtrip-differs:tx"+sigPath(d), "tx: decoded transaction differs from the encoded fields at %s", d) {
				return
			}
		}
		e2, err2 := irlp.EncodeToBytes(tx)
		if err2 != nil || !bytes.Equal(e1, e2) {
			if x.Fail("rlp-reencode-differs", "tx: re-encoding differs (err=%v)", err2) {
				return
			}
		}
		// the hash that identifies the transaction everywhere is a function of the encoding
		rtx := new(reftypes.Transaction)
		if rerr := refrlp.DecodeBytes(e1, rtx); rerr != nil {
			x.Fail("rlp-accept-differs:tx", "tx: reference rejects %x: %v", e1, rerr)
			return
		}
		if ecommon.Hash(rtx.Hash()) != tx.Hash() {
			if x.Fail("tx-hash-differs-from-reference", "tx: hash %x, reference %x", tx.Hash(), rtx.Hash()) {
				return
			}
		}
		if m.To == nil {
			x.Label("tx:contract-creation")
		}
		if len(m.Payload) > 55 {
			x.Label("tx:payload>55")
		}
		if m.To == nil || len(m.Payload) > 0 {
			x.NonTrivial()
		}
	default:
		out := reflect.New(reflect.TypeOf(v))
		if reflect.TypeOf(v).Kind() == reflect.Ptr {
			out = reflect.New(reflect.TypeOf(v).Elem())
		}
		var derr error
		if p := safely(func() { derr = irlp.DecodeBytes(e1, out.Interface()) }); p != nil {
			x.Fail("rlp-decode-of-own-encoding-panics", "%s: DecodeBytes panicked: %v", c.Type, p)
			return
		}
		if derr != nil {
			x.Fail("rlp-decode-rejects-own-encoding", "%s: DecodeBytes(%x): %v", c.Type, e1, derr)
			return
		}
		want := reflect.ValueOf(v)
		got := out
		if want.Kind() != reflect.Ptr {
			got = out.Elem()
		}
		if d := normDiff(want, got, ""); d != "" {
			if x.Fail("rlp-roundtrip-differs:"+c.Type+sigPath(d), "%s: decode(encode(v)) differs at %s", c.Type, d) {
				return
			}
		}
		e2, err2 := irlp.EncodeToBytes(got.Interface())
		if err2 != nil || !bytes.Equal(e1, e2) {
			if x.Fail("rlp-reencode-differs", "%s: re-encoding differs (err=%v)", c.Type, err2) {
				return
			}
		}
		if len(e1) > 3 {
			x.NonTrivial()
		}
	}
	x.Labelf("type:%s", c.Type)
	x.Labelf("size:%s", lenBucket(len(e1)))
}

func TestRLPRoundTrip(t *testing.T) {
	h.Check(t, h.Spec[RLPCase]{Prop: "C18", Leg: "rlptyped", Gen: genRLPRT, Run: runRLPRT})
}

// ---- differential oracle on arbitrary bytes ---------------------------------------------

// rlpDiff feeds the same bytes to both libraries for the target type and compares
// accept/reject, the decoded values and their re-encodings.
func rlpDiff(tg *rlpTarget, data []byte, x ctx) (accepted bool) {
	if tg.typ == nil {
		itx, rtx := new(etypes.Transaction), new(reftypes.Transaction)
		var ierr, rerr error
		if p := safely(func() { ierr = irlp.DecodeBytes(data, itx) }); p != nil {
			x.Fail("rlp-decode-panics", "tx: in-tree DecodeBytes(%x) panicked: %v", data, p)
			return
		}
		if p := safely(func() { rerr = refrlp.DecodeBytes(data, rtx) }); p != nil {
			x.Label("reference-panics")
			return
		}
		if (ierr == nil) != (rerr == nil) {
			x.Fail("rlp-accept-differs:tx", "tx: in-tree err=%v, reference err=%v on %x", ierr, rerr, data)
			return
		}
		if ierr != nil {
			return false
		}
		if d := normDiff(reflect.ValueOf(viewIn(itx)), reflect.ValueOf(viewRef(rtx)), ""); d != "" {
			if x.Fail("rlp-value-differs:tx", "tx: decoded values differ at %s on %x", d, data) {
				return
			}
		}
		ie, _ := irlp.EncodeToBytes(itx)
		re, _ := refrlp.EncodeToBytes(rtx)
		if !bytes.Equal(ie, re) {
			if x.Fail("rlp-reencode-differs-from-reference:tx", "tx: re-encodings differ: %x vs %x", ie, re) {
				return
			}
		}
		if !bytes.Equal(ie, data) {
			// Not part of the property text (both libraries agree), recorded for the report: an
			// accepted encoding that is not the canonical one is a second hash for the same fields.
			x.Label("tx-noncanonical-encoding-accepted-by-both")
		}
		if ecommon.Hash(rtx.Hash()) != itx.Hash() || refcommon.StorageSize(itx.Size()) != rtx.Size() {
			if x.Fail("tx-hash-differs-from-reference", "tx: hash/size %x/%v, reference %x/%v", itx.Hash(), itx.Size(), rtx.Hash(), rtx.Size()) {
				return
			}
		}
		return true
	}
	iv, rv := reflect.New(tg.typ), reflect.New(tg.typ)
	var ierr, rerr error
	if p := safely(func() { ierr = irlp.DecodeBytes(data, iv.Interface()) }); p != nil {
		x.Fail("rlp-decode-panics", "%s: in-tree DecodeBytes(%x) panicked: %v", tg.name, data, p)
		return
	}
	if p := safely(func() { rerr = refrlp.DecodeBytes(data, rv.Interface()) }); p != nil {
		x.Label("reference-panics")
		return
	}
	if (ierr == nil) != (rerr == nil) {
		x.Fail("rlp-accept-differs:"+tg.name, "%s: in-tree err=%v, reference err=%v on %x", tg.name, ierr, rerr, data)
		return
	}
	if ierr != nil {
		if ierr.Error() != rerr.Error() {
			x.Label("rlp-error-text-differs")
		}
		return false
	}
	if d := normDiff(iv, rv, ""); d != "" {
		if x.Fail("rlp-value-differs:"+tg.name, "%s: decoded values differ at %s on %x", tg.name, d, data) {
			return
		}
	}
	ie, ierr2 := irlp.EncodeToBytes(iv.Interface())
	re, rerr2 := refrlp.EncodeToBytes(rv.Interface())
	if (ierr2 == nil) != (rerr2 == nil) || !bytes.Equal(ie, re) {
		if x.Fail("rlp-reencode-differs-from-reference:"+tg.name, "%s: re-encodings differ: %x (%v) vs %x (%v)", tg.name, ie, ierr2, re, rerr2) {
			return
		}
	}
	// cross check: the in-tree encoder on the reference's value
	if ce, cerr := irlp.EncodeToBytes(rv.Interface()); cerr != nil || !bytes.Equal(ce, re) {
		if x.Fail("rlp-reencode-differs-from-reference:"+tg.name, "%s: in-tree encoding of the reference's value differs", tg.name) {
			return
		}
	}
	return true
}

// ---- a tiny independent RLP item tree (for structure-aware mutation in generators) ----------

type ritem struct {
	list bool
	str  []byte
	kids []*ritem
	// emission knobs (non-canonical forms)
	longLen    bool // long-form length even when the payload is < 56 bytes
	lenPad     int  // leading zero bytes in the length-of-length
	wrapSingle bool // a single byte < 0x80 written as 0x81 b
	lie        int  // added to the declared length
}

func parseRLP(b []byte, depth int) (*ritem, int, bool) {
	if len(b) == 0 || depth > 40 {
		return nil, 0, false
	}
	t := b[0]
	switch {
	case t < 0x80:
		return &ritem{str: []byte{t}}, 1, true
	case t < 0xb8:
		n := int(t - 0x80)
		if len(b) < 1+n {
			return nil, 0, false
		}
		return &ritem{str: append([]byte{}, b[1:1+n]...)}, 1 + n, true
	case t < 0xc0:
		ll := int(t - 0xb7)
		if len(b) < 1+ll {
			return nil, 0, false
		}
		n := 0
		for _, c := range b[1 : 1+ll] {
			n = n<<8 | int(c)
			if n > len(b) {
				return nil, 0, false
			}
		}
		if len(b) < 1+ll+n {
			return nil, 0, false
		}
		return &ritem{str: append([]byte{}, b[1+ll:1+ll+n]...)}, 1 + ll + n, true
	default:
		hdr, n := 1, 0
		if t < 0xf8 {
			n = int(t - 0xc0)
		} else {
			ll := int(t - 0xf7)
			if len(b) < 1+ll {
				return nil, 0, false
			}
			for _, c := range b[1 : 1+ll] {
				n = n<<8 | int(c)
				if n > len(b) {
					return nil, 0, false
				}
			}
			hdr = 1 + ll
		}
		if len(b) < hdr+n {
			return nil, 0, false
		}
		it := &ritem{list: true}
		body := b[hdr : hdr+n]
		for len(body) > 0 {
			k, used, ok := parseRLP(body, depth+1)
			if !ok {
				return nil, 0, false
			}
			it.kids = append(it.kids, k)
			body = body[used:]
		}
		return it, hdr + n, true
	}
}

func (it *ritem) emit() []byte {
	var payload []byte
	base := byte(0x80)
	if it.list {
		base = 0xc0
		for _, k := range it.kids {
			payload = append(payload, k.emit()...)
		}
	} else {
		payload = it.str
		if len(payload) == 1 && payload[0] < 0x80 && !it.wrapSingle && !it.longLen {
			return []byte{payload[0]}
		}
	}
	n := len(payload) + it.lie
	if n < 0 {
		n = 0
	}
	if n < 56 && !it.longLen {
		return append([]byte{base + byte(n)}, payload...)
	}
	var lb []byte
	for v := n; v > 0; v >>= 8 {
		lb = append([]byte{byte(v)}, lb...)
	}
	if len(lb) == 0 {
		lb = []byte{0}
	}
	for i := 0; i < it.lenPad && len(lb) < 8; i++ {
		lb = append([]byte{0}, lb...)
	}
	out := append([]byte{base + 55 + byte(len(lb))}, lb...)
	return append(out, payload...)
}

func (it *ritem) nodes(acc *[]*ritem) {
	*acc = append(*acc, it)
	for _, k := range it.kids {
		k.nodes(acc)
	}
}

// mutateRLPTree applies one structure-aware mutation (drawn from rapid) and re-emits.
func mutateRLPTree(t *rapid.T, data []byte) []byte {
	root, used, ok := parseRLP(data, 0)
	if !ok {
		return data
	}
	var all []*ritem
	root.nodes(&all)
	nd := all[rapid.IntRange(0, len(all)-1).Draw(t, "node")]
	switch rapid.IntRange(0, 12).Draw(t, "treeMut") {
	case 12:
		// empty string <-> empty list (what an `rlp:"nil"` pointer accepts)
		if len(nd.str) == 0 && len(nd.kids) == 0 {
			nd.list = !nd.list
		} else {
			nd.list, nd.str, nd.kids = true, nil, nil
		}
	case 0:
		nd.longLen = true
	case 1:
		nd.longLen, nd.lenPad = true, 1
	case 2:
		nd.wrapSingle = true
	case 3:
		if !nd.list {
			nd.str = append([]byte{0}, nd.str...) // leading zero (non-canonical integer)
		}
	case 4:
		if nd.list {
			var p []byte
			for _, k := range nd.kids {
				p = append(p, k.emit()...)
			}
			nd.list, nd.str, nd.kids = false, p, nil
		} else {
			nd.list, nd.kids = true, []*ritem{{str: nd.str}}
		}
	case 5:
		if nd.list && len(nd.kids) > 0 {
			i := rapid.IntRange(0, len(nd.kids)-1).Draw(t, "kid")
			nd.kids = append(nd.kids[:i:i], nd.kids[i+1:]...)
		}
	case 6:
		if nd.list && len(nd.kids) > 0 {
			i := rapid.IntRange(0, len(nd.kids)-1).Draw(t, "kid")
			nd.kids = append(nd.kids, nd.kids[i])
		} else if nd.list {
			nd.kids = append(nd.kids, &ritem{str: []byte{1}})
		}
	case 7:
		if !nd.list {
			nd.str = rapid.SliceOfN(rapid.Byte(), 0, 40).Draw(t, "newStr")
		}
	case 8:
		if !nd.list {
			nd.str = bytes.Repeat([]byte{0xff}, rapid.SampledFrom([]int{8, 9, 20, 21, 32, 33, 56}).Draw(t, "bigLen"))
		}
	case 9:
		nd.lie = rapid.SampledFrom([]int{-1, 1, 2, 55, 200, 1 << 16, 1 << 30}).Draw(t, "lie")
	case 10:
		if !nd.list {
			nd.str = nil
		} else {
			nd.kids = nil
		}
	default:
		nd.lenPad, nd.longLen = 2, true
	}
	out := root.emit()
	return append(out, data[used:]...)
}

var _ = fmt.Sprintf
