// Position-aware hostile length prefixes for the decode leg: an independent walker lays out the
// go-wire binary encoding of a generated value and records where every length prefix
// (byte slice, string, slice) sits; the generator replaces one of them by a boundary varint.
package c18

import (
	"encoding/binary"
	"math"
	"reflect"
	"time"

	wire "github.com/dappledger/AnnChain/gemmill/go-wire"
)

type lenPrefix struct {
	off, size int    // position and length of the varint in the encoding
	kind      string // bytes | string | slice
}

type layout struct {
	buf []byte
	pre []lenPrefix
	ok  bool
}

// varint: one size byte (0..8, 0xF0|size for negative values) + big-endian magnitude.
func encVarint(i int64) []byte {
	neg := i < 0
	u := uint64(i)
	if neg {
		u = uint64(-i)
	}
	size := 0
	for x := u; x > 0; x >>= 8 {
		size++
	}
	var tmp [8]byte
	binary.BigEndian.PutUint64(tmp[:], u)
	hd := byte(size)
	if neg {
		hd |= 0xF0
	}
	return append([]byte{hd}, tmp[8-size:]...)
}

func (l *layout) fixed(u uint64, n int) {
	var tmp [8]byte
	binary.BigEndian.PutUint64(tmp[:], u)
	l.buf = append(l.buf, tmp[8-n:]...)
}

func (l *layout) prefix(n int, kind string) {
	v := encVarint(int64(n))
	l.pre = append(l.pre, lenPrefix{off: len(l.buf), size: len(v), kind: kind})
	l.buf = append(l.buf, v...)
}

func (l *layout) walk(rv reflect.Value, rt reflect.Type) {
	if !l.ok {
		return
	}
	switch rt.Kind() {
	case reflect.Interface:
		if rv.IsNil() {
			l.buf = append(l.buf, 0)
			return
		}
		crv := rv.Elem()
		crt := crv.Type()
		tb, found := wire.GetTypeInfo(rt).TypeToByte[crt]
		if !found {
			l.ok = false
			return
		}
		l.buf = append(l.buf, tb)
		if crt.Kind() == reflect.Ptr {
			crv, crt = crv.Elem(), crt.Elem()
		}
		l.walk(crv, crt)
	case reflect.Ptr:
		if rv.IsNil() {
			l.buf = append(l.buf, 0)
			return
		}
		l.buf = append(l.buf, 1)
		l.walk(rv.Elem(), rt.Elem())
	case reflect.Array:
		for i := 0; i < rt.Len(); i++ {
			l.walk(rv.Index(i), rt.Elem())
		}
	case reflect.Slice:
		if rt.Elem().Kind() == reflect.Uint8 {
			l.prefix(rv.Len(), "bytes")
			l.buf = append(l.buf, rv.Bytes()...)
			return
		}
		l.prefix(rv.Len(), "slice")
		for i := 0; i < rv.Len(); i++ {
			l.walk(rv.Index(i), rt.Elem())
		}
	case reflect.Struct:
		if rt == timeType {
			t := rv.Interface().(time.Time)
			l.fixed(uint64(t.UnixNano()/1000000*1000000), 8)
			return
		}
		for i := 0; i < rt.NumField(); i++ {
			if skipField(rt.Field(i)) {
				continue
			}
			l.walk(rv.Field(i), rt.Field(i).Type)
		}
	case reflect.String:
		l.prefix(len(rv.String()), "string")
		l.buf = append(l.buf, rv.String()...)
	case reflect.Int64:
		l.fixed(uint64(rv.Int()), 8)
	case reflect.Int32:
		l.fixed(uint64(rv.Int()), 4)
	case reflect.Int16:
		l.fixed(uint64(rv.Int()), 2)
	case reflect.Int8:
		l.fixed(uint64(rv.Int()), 1)
	case reflect.Int:
		l.buf = append(l.buf, encVarint(rv.Int())...)
	case reflect.Uint64:
		l.fixed(rv.Uint(), 8)
	case reflect.Uint32:
		l.fixed(rv.Uint(), 4)
	case reflect.Uint16:
		l.fixed(rv.Uint(), 2)
	case reflect.Uint8:
		l.fixed(rv.Uint(), 1)
	case reflect.Uint:
		if rv.Uint() > math.MaxInt64 {
			l.ok = false
			return
		}
		l.buf = append(l.buf, encVarint(int64(rv.Uint()))...)
	case reflect.Bool:
		if rv.Bool() {
			l.buf = append(l.buf, 1)
		} else {
			l.buf = append(l.buf, 0)
		}
	default:
		l.ok = false
	}
}

// layoutOf lays out enc (a value or pointer as passed to wire.BinaryBytes).
func layoutOf(enc any) *layout {
	l := &layout{ok: true}
	func() {
		defer func() {
			if recover() != nil {
				l.ok = false
			}
		}()
		l.walk(reflect.ValueOf(enc), reflect.TypeOf(enc))
	}()
	return l
}

func raw8(u uint64) []byte {
	out := make([]byte, 9)
	out[0] = 8
	binary.BigEndian.PutUint64(out[1:], u)
	return out
}

// hostileVarints: boundary length prefixes for a prefix at offset off (= bytes read before it)
// of an encoding of total bytes whose true value is truth. Lengths near MaxInt64 make n+length
// wrap; MaxInt64-n-k sits exactly on the wrap boundary for the n bytes read so far (n = off+9
// after an 8-byte varint); the limit-relative ones sit on either side of every limit the leg
// uses (1, total/2, total, 1MB) with and without the bytes already read.
func hostileVarints(off, total, truth int) [][]byte {
	const maxI = math.MaxInt64
	n9 := uint64(off + 9)
	out := [][]byte{
		raw8(maxI), raw8(maxI - 1), raw8(maxI - 2), raw8(maxI - 7), raw8(maxI - 8), raw8(maxI - 9), raw8(maxI - 16),
		raw8(maxI - n9), raw8(maxI - n9 + 1), raw8(maxI - n9 - 1), raw8(maxI - n9 + 2), raw8(maxI - uint64(off)), raw8(maxI - uint64(total)),
		raw8(maxI - n9 - uint64(total)), raw8(maxI/2 + 1), raw8(1 << 62), raw8(1<<62 - 1), raw8(1 << 56), raw8(1 << 32), raw8(1 << 31), raw8(1<<31 - 1),
		raw8(1 << 63), raw8(1<<63 + 1), raw8(math.MaxUint64), raw8(math.MaxUint64 - n9),
		raw8(uint64(truth)), raw8(uint64(truth) + 1), raw8(0), raw8(5), // 8-byte sizes with leading zeros
		{0x07, 0xff, 0xff, 0xff, 0xff, 0xff, 0xff, 0xff}, {0x05, 0x01, 0, 0, 0, 0}, {0x04, 0xff, 0xff, 0xff, 0xff}, {0x02, 0x00, byte(truth)},
		{0xf1, 0x01}, {0xf1, 0xff}, {0xf0}, {0xf8, 0x80, 0, 0, 0, 0, 0, 0, 0}, {0xf8, 0x7f, 0xff, 0xff, 0xff, 0xff, 0xff, 0xff, 0xff}, {0xf8, 0, 0, 0, 0, 0, 0, 0, 1},
		{0x09}, {0x0a, 1, 2, 3}, {0x0f}, {0x10}, {0xf9}, {0xff}, {0x80}, {0xe1, 0x01},
	}
	for _, lmt := range []int{1, total / 2, total, 1 << 20} {
		for _, d := range []int{-1, 0, 1} {
			if v := lmt + d; v >= 0 {
				out = append(out, encVarint(int64(v)))
			}
			if v := lmt - off + d; v >= 0 {
				out = append(out, encVarint(int64(v)))
			}
			if v := lmt - off - 9 + d; v >= 0 {
				out = append(out, raw8(uint64(v)))
			}
		}
	}
	return out
}

// splice replaces prefix p of buf by v.
func splice(buf []byte, p lenPrefix, v []byte) []byte {
	out := append([]byte{}, buf[:p.off]...)
	out = append(out, v...)
	return append(out, buf[p.off+p.size:]...)
}
