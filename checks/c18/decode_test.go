// Legs (ii) and (iii): arbitrary / mutated bytes into every decoder.
//
//	bin:<Kind>   wire.ReadBinary with limits {1, len/2, len, 1MB}: no panic, err==nil => n<=limit,
//	             bytes pulled from the reader == n and <= limit+slack, allocation bounded
//	msg:<r>      the reactors' DecodeMessage (fixed internal limit): no panic, allocation bounded
//	json:<Kind>  wire.ReadJSON: no panic, allocation bounded
//	rlp:<type>   in-tree eth/rlp vs reference go-ethereum rlp: no panic, same accept/reject, value, encoding
//
// plus the seed-corpus replay (quick tier) and the native fuzz targets (thorough tier).
package c18

import (
	"bytes"
	"encoding/json"
	"fmt"
	"io"
	"os"
	"path/filepath"
	"reflect"
	"runtime"
	"sort"
	"strconv"
	"strings"
	"testing"

	"github.com/dappledger/AnnChain/gemmill/blockchain"
	pbft "github.com/dappledger/AnnChain/gemmill/consensus/pbft"
	wire "github.com/dappledger/AnnChain/gemmill/go-wire"
	"github.com/dappledger/AnnChain/gemmill/mempool"
	"github.com/dappledger/AnnChain/gemmill/p2p"
	"github.com/dappledger/AnnChain/gemmill/types"
	refrlp "github.com/ethereum/go-ethereum/rlp"
	"pgregory.net/rapid"

	"verif/internal/h"
)

type DecodeCase struct {
	Target string `json:"target"`
	Data   h.Hex  `json:"data"`
	Origin string `json:"origin,omitempty"` // how the generator made the bytes (label only)
}

// internal limits of the reactors' DecodeMessage functions (reactor.go constants)
var msgTargets = map[string]struct {
	limit int
	dec   func([]byte) (byte, interface{}, error)
}{
	"consensus":  {1048576, func(b []byte) (byte, interface{}, error) { t, m, e := pbft.DecodeMessage(b); return t, m, e }},
	"blockchain": {types.MaxBlockSize + 2, func(b []byte) (byte, interface{}, error) { t, m, e := blockchain.DecodeMessage(b); return t, m, e }},
	"mempool":    {1048576, func(b []byte) (byte, interface{}, error) { t, m, e := mempool.DecodeMessage(b); return t, m, e }},
	"pex":        {1048576, func(b []byte) (byte, interface{}, error) { t, m, e := p2p.DecodeMessage(b); return t, m, e }},
}

var msgKind = map[string]string{"consensus": "ConsensusMessage", "blockchain": "BlockchainMessage", "mempool": "MempoolMessage", "pex": "PexMessage"}

// allTargets lists every decoder target (deterministic order).
func allTargets() []string {
	var out []string
	for _, k := range kinds {
		for _, c := range k.codecs {
			out = append(out, c+":"+k.name)
		}
	}
	for _, m := range []string{"consensus", "blockchain", "mempool", "pex"} {
		out = append(out, "msg:"+m)
	}
	for _, r := range rlpTargets {
		out = append(out, "rlp:"+r.name)
	}
	return out
}

type countingReader struct {
	r io.Reader
	n int
}

func (c *countingReader) Read(p []byte) (int, error) {
	k, err := c.r.Read(p)
	c.n += k
	return k, err
}

// measure runs f on this goroutine and returns the bytes allocated meanwhile (TotalAlloc delta;
// ReadMemStats stops the world and flushes the allocation caches, so the delta is exact up to
// what other, idle goroutines of the test binary allocate) and the recovered panic.
func measure(f func()) (alloc uint64, pnc any) {
	var m1, m2 runtime.MemStats
	runtime.ReadMemStats(&m1)
	pnc = safely(f)
	runtime.ReadMemStats(&m2)
	return m2.TotalAlloc - m1.TotalAlloc, pnc
}

// Allocation bound: linear in limit+len with a generous factor. The factor covers what a decoder
// legitimately needs per input byte (a nil pointer or an empty byte slice costs 1 input byte and
// 8..24 bytes of slice element, times slice growth and go-wire's temporary 1024-element chunk);
// the constant covers fixed-size scratch (1024-element chunks of the widest element, stack dumps
// of PanicSanity). Only an allocation driven by a length field that was not checked against
// limit/len can exceed it.
const (
	allocFactor = 256
	allocConst  = 1 << 20
	// the limit is checked after each primitive read and at the end of ReadBinary, never between
	// the fixed-size fields of one struct: an overrun by the fixed-size tail of a struct is by design
	consumeSlack = 256
)

func panicSig(prefix string, p any) string {
	s := fmt.Sprint(p)
	switch {
	case strings.Contains(s, "sub-millisecond"):
		return "readtime-panics-on-sub-millisecond" // one root cause whatever the entry point
	case strings.Contains(s, "index out of range"):
		return prefix + "-panics:index-out-of-range"
	case strings.Contains(s, "makeslice") || strings.Contains(s, "out of memory"):
		return prefix + "-panics:makeslice"
	case strings.Contains(s, "nil pointer"):
		return prefix + "-panics:nil-pointer"
	case strings.Contains(s, "reflect"):
		return prefix + "-panics:reflect"
	}
	return prefix + "-panics:other"
}

func runDecode(c DecodeCase, x ctx) {
	i := strings.Index(c.Target, ":")
	if i < 0 {
		return
	}
	fam, name := c.Target[:i], c.Target[i+1:]
	data := []byte(c.Data)
	outcome := "rejected"
	switch fam {
	case codecBin:
		spec := kindByName[name]
		if spec == nil {
			return
		}
		byPtr := !spec.valOnly
		limits := []int{1, len(data) / 2, len(data), 1 << 20}
		seen := map[int]bool{}
		maxConsumed := 0
		for _, lmt := range limits {
			if lmt <= 0 || seen[lmt] {
				continue // 0 means "no limit" to go-wire
			}
			seen[lmt] = true
			var out reflect.Value
			var n int
			var err error
			cr := &countingReader{r: bytes.NewReader(data)}
			alloc, pnc := measure(func() {
				if byPtr {
					out = reflect.ValueOf(wire.ReadBinary(reflect.New(spec.typ).Interface(), cr, lmt, &n, &err))
				} else {
					res := wire.ReadBinary(reflect.Zero(spec.typ).Interface(), cr, lmt, &n, &err)
					pv := reflect.New(spec.typ)
					pv.Elem().Set(reflect.ValueOf(res))
					out = pv
				}
			})
			if pnc != nil {
				if x.Fail(panicSig("bin-decode", pnc), "ReadBinary(%s, limit=%d) panicked on %d bytes %x: %v", name, lmt, len(data), trunc(data), pnc) {
					return
				}
				continue
			}
			if cr.n > maxConsumed {
				maxConsumed = cr.n
			}
			if err == nil && n > lmt {
				if x.Fail("bin-decode-accepts-beyond-limit", "ReadBinary(%s, limit=%d) returned no error after reading n=%d bytes", name, lmt, n) {
					return
				}
			}
			if n != cr.n {
				if x.Fail("bin-decode-count-differs", "ReadBinary(%s, limit=%d) reports n=%d but pulled %d bytes from the reader", name, lmt, n, cr.n) {
					return
				}
			}
			if cr.n > lmt+consumeSlack {
				if x.Fail("bin-decode-reads-beyond-limit", "ReadBinary(%s, limit=%d) pulled %d bytes from the reader", name, lmt, cr.n) {
					return
				}
			}
			if bound := uint64(allocFactor*(lmt+len(data)) + allocConst); alloc > bound {
				if x.Fail("bin-decode-allocation-unbounded", "ReadBinary(%s, limit=%d) allocated %d bytes on a %d-byte input (bound %d): %x", name, lmt, alloc, len(data), bound, trunc(data)) {
					return
				}
			}
			if err == nil {
				outcome = "accepted"
				// an accepted value is a value of the type: it must re-encode and survive a round trip
				var b2 []byte
				if p := safely(func() { b2 = wire.BinaryBytes(encodable(out, byPtr)) }); p != nil {
					if x.Fail("bin-accepted-value-not-encodable", "%s: value decoded from %x cannot be encoded: %v", name, trunc(data), p) {
						return
					}
					continue
				}
				out2, _, err2, p2 := binDecode(spec, byPtr, b2, len(b2))
				if p2 != nil || err2 != nil {
					if x.Fail("bin-accepted-value-roundtrip", "%s: value decoded from %x does not decode again from its own encoding: err=%v panic=%v", name, trunc(data), err2, p2) {
						return
					}
					continue
				}
				if d := normDiffLax(out, out2, ""); d != "" {
					if x.Fail("bin-accepted-value-roundtrip:"+sigPath(d), "%s: value decoded from %x changes in a round trip at %s", name, trunc(data), d) {
						return
					}
				}
			}
		}
		if outcome != "accepted" && maxConsumed >= 2 {
			outcome = "partial"
		}
	case "msg":
		mt, ok := msgTargets[name]
		if !ok {
			return
		}
		var err error
		var msg interface{}
		alloc, pnc := measure(func() { _, msg, err = mt.dec(data) })
		if pnc != nil {
			sig := panicSig("decodemessage", pnc)
			if len(data) == 0 {
				sig = "decodemessage-panics-on-empty-input"
			}
			if x.Fail(sig, "%s.DecodeMessage panicked on %d bytes %x: %v", name, len(data), trunc(data), pnc) {
				return
			}
			outcome = "panic"
			break
		}
		if bound := uint64(allocFactor*len(data) + 2*mt.limit + allocConst); alloc > bound {
			if x.Fail("decodemessage-allocation-unbounded", "%s.DecodeMessage allocated %d bytes on a %d-byte input (bound %d)", name, alloc, len(data), bound) {
				return
			}
		}
		if err == nil && msg != nil {
			outcome = "accepted"
		} else if err == nil {
			outcome = "nil-message"
		}
	case codecJSON:
		spec := kindByName[name]
		if spec == nil {
			return
		}
		byPtr := !spec.valOnly
		var out reflect.Value
		var err error
		alloc, pnc := measure(func() {
			var p2 any
			out, err, p2 = jsonDecode(spec, byPtr, data)
			if p2 != nil {
				panic(p2)
			}
		})
		if pnc != nil {
			if x.Fail(panicSig("json-decode", pnc), "ReadJSON(%s) panicked on %.300q: %v", name, data, pnc) {
				return
			}
			break
		}
		// encoding/json builds the generic tree first; there is no caller limit for JSON, the
		// bound only guards against super-linear behaviour
		if bound := uint64(2048*len(data) + 4*allocConst); alloc > bound {
			if x.Fail("json-decode-allocation-unbounded", "ReadJSON(%s) allocated %d bytes on a %d-byte input", name, alloc, len(data)) {
				return
			}
		}
		if err == nil {
			outcome = "accepted"
			if p := safely(func() { wire.JSONBytes(encodable(out, byPtr)) }); p != nil {
				if x.Fail("json-accepted-value-not-encodable", "%s: value decoded from %.300q cannot be encoded: %v", name, data, p) {
					return
				}
			}
		}
	case codecRLP:
		tg := rlpTargetByName(name)
		if tg == nil {
			return
		}
		var acc bool
		alloc, pnc := measure(func() { acc = rlpDiff(tg, data, x) })
		if pnc != nil {
			x.Fail("rlp-decode-panics", "rlp %s: panic outside the decoders: %v", name, pnc)
			return
		}
		if x.Failed() {
			return
		}
		// both libraries and two re-encodings run inside the measured section
		if bound := uint64(4*allocFactor*len(data) + allocConst); alloc > bound {
			if x.Fail("rlp-decode-allocation-unbounded", "rlp %s: %d bytes allocated on a %d-byte input", name, alloc, len(data)) {
				return
			}
		}
		if acc {
			outcome = "accepted"
		}
	default:
		return
	}
	x.Labelf("target:%s", c.Target)
	if c.Origin != "" {
		x.Labelf("origin:%s", c.Origin)
	}
	x.Labelf("outcome:%s/%s", fam, outcome)
	x.Labelf("len:%s", lenBucket(len(data)))
	if outcome == "accepted" || outcome == "partial" {
		x.NonTrivial(c.Target, outcome, fmt.Sprintf("%x", data))
	}
}

func trunc(b []byte) []byte {
	if len(b) > 96 {
		return b[:96]
	}
	return b
}

// ---- generator -------------------------------------------------------------------------

// validEncoding builds a typed value for the target and encodes it (generation side only).
func validEncoding(t *rapid.T, target string) []byte {
	i := strings.Index(target, ":")
	fam, name := target[:i], target[i+1:]
	s := recSrc(t)
	var out []byte
	switch fam {
	case codecBin, codecJSON, "msg":
		if fam == "msg" {
			name, fam = msgKind[name], codecBin
		}
		spec := kindByName[name]
		pv, _ := buildValue(spec, fam, s)
		safely(func() {
			if fam == codecBin {
				out = wire.BinaryBytes(encodable(pv, !spec.valOnly))
			} else {
				out = wire.JSONBytes(encodable(pv, !spec.valOnly))
			}
		})
	case codecRLP:
		tg := rlpTargetByName(name)
		typ := tg.typ
		if typ == nil {
			typ = tOf(txMirror{})
		}
		f := &filler{s: s, codec: codecRLP}
		pv := reflect.New(typ)
		f.fillRLP(pv.Elem(), 0)
		out, _ = refrlp.EncodeToBytes(pv.Interface())
	}
	return out
}

// binLayout builds a typed value for a bin:/msg: target and lays its encoding out; ok only when
// the independent layout agrees byte for byte with wire.BinaryBytes and has a length prefix.
func binLayout(s *src, target string) (*layout, bool) {
	i := strings.Index(target, ":")
	fam, name := target[:i], target[i+1:]
	if fam == "msg" {
		name = msgKind[name]
	}
	spec := kindByName[name]
	if spec == nil {
		return nil, false
	}
	pv, _ := buildValue(spec, codecBin, s)
	enc := encodable(pv, !spec.valOnly)
	var ref []byte
	if safely(func() { ref = wire.BinaryBytes(enc) }) != nil {
		return nil, false
	}
	l := layoutOf(enc)
	l.ok = l.ok && bytes.Equal(l.buf, ref)
	return l, l.ok && len(l.pre) > 0
}

func prefixTruth(l *layout, p lenPrefix) int {
	v := 0
	for _, b := range l.buf[p.off+1 : p.off+p.size] {
		v = v<<8 | int(b)
	}
	return v
}

// hostileEncoding: a valid encoding in which one (sometimes two) length prefixes are replaced
// by a boundary varint, at the exact position where the decoder expects a length.
func hostileEncoding(t *rapid.T, target string) ([]byte, bool) {
	l, ok := binLayout(recSrc(t), target)
	if !ok {
		return nil, false
	}
	p := l.pre[rapid.IntRange(0, len(l.pre)-1).Draw(t, "prefix")]
	hv := hostileVarints(p.off, len(l.buf), prefixTruth(l, p))
	out := splice(l.buf, p, hv[rapid.IntRange(0, len(hv)-1).Draw(t, "hostile")])
	switch rapid.IntRange(0, 5).Draw(t, "after") {
	case 0:
		out = out[:p.off+rapid.IntRange(1, 9).Draw(t, "cut")%(len(out)-p.off)+1] // input ends inside / right after the prefix
	case 1:
		out = append(out, bytes.Repeat([]byte{0xff}, rapid.IntRange(1, 64).Draw(t, "pad"))...)
	}
	return out, true
}

var bombs = [][]byte{
	{0x01, 0xff}, {0x02, 0xff, 0xff}, {0x03, 0x10, 0x00, 0x01}, {0x03, 0xff, 0xff, 0xff}, {0x04, 0x04, 0x00, 0x00, 0x00},
	{0x04, 0x7f, 0xff, 0xff, 0xff}, {0x05, 0x01, 0x00, 0x00, 0x00, 0x00}, {0x08, 0x7f, 0xff, 0xff, 0xff, 0xff, 0xff, 0xff, 0xff},
	{0x08, 0x80, 0, 0, 0, 0, 0, 0, 0}, {0x08, 0xff, 0xff, 0xff, 0xff, 0xff, 0xff, 0xff, 0xff}, {0xf1, 0x01}, {0xf8, 0x80, 0, 0, 0, 0, 0, 0, 0},
	{0xf0}, {0x09}, {0x00}, {0xb8, 0x38}, {0xbb, 0x7f, 0xff, 0xff, 0xff}, {0xbf, 0xff, 0xff, 0xff, 0xff, 0xff, 0xff, 0xff, 0xff},
	{0xf8, 0x38}, {0xfb, 0x7f, 0xff, 0xff, 0xff}, {0xff, 0xff, 0xff, 0xff, 0xff, 0xff, 0xff, 0xff, 0xff},
}

func mutateBytes(t *rapid.T, b []byte) []byte {
	b = append([]byte{}, b...)
	pos := func() int {
		if len(b) == 0 {
			return 0
		}
		return rapid.IntRange(0, len(b)-1).Draw(t, "pos")
	}
	switch rapid.IntRange(0, 9).Draw(t, "mut") {
	case 0:
		if len(b) > 0 {
			b[pos()] ^= 1 << uint(rapid.IntRange(0, 7).Draw(t, "bit"))
		}
	case 1:
		if len(b) > 0 {
			b[pos()] = rapid.SampledFrom([]byte{0x00, 0x01, 0x02, 0x08, 0x7f, 0x80, 0xf1, 0xff}).Draw(t, "val")
		}
	case 2:
		p := pos()
		ins := rapid.SliceOfN(rapid.Byte(), 1, 4).Draw(t, "ins")
		b = append(b[:p:p], append(ins, b[p:]...)...)
	case 3:
		if len(b) > 0 {
			p := pos()
			k := rapid.IntRange(1, 8).Draw(t, "del")
			if p+k > len(b) {
				k = len(b) - p
			}
			b = append(b[:p:p], b[p+k:]...)
		}
	case 4:
		if len(b) > 0 {
			b = b[:pos()]
		}
	case 5:
		b = append(b, rapid.SliceOfN(rapid.Byte(), 1, 12).Draw(t, "app")...)
	case 6, 7:
		// overwrite / insert a length prefix that promises far more than the input holds
		bomb := rapid.SampledFrom(bombs).Draw(t, "bomb")
		p := pos()
		if rapid.Bool().Draw(t, "bombInsert") {
			b = append(b[:p:p], append(append([]byte{}, bomb...), b[p:]...)...)
		} else {
			for i, v := range bomb {
				if p+i < len(b) {
					b[p+i] = v
				} else {
					b = append(b, v)
				}
			}
		}
	case 8:
		if len(b) > 1 {
			p := pos()
			k := rapid.IntRange(1, len(b)-p).Draw(t, "dup")
			b = append(b[:p+k:p+k], b[p:]...)
		}
	default:
		if len(b) > 0 {
			p := pos()
			b[p] = b[p] + byte(rapid.IntRange(-2, 2).Draw(t, "delta"))
		}
	}
	return b
}

// mutateJSON applies one structure-aware mutation to a JSON document.
func mutateJSON(t *rapid.T, doc []byte) []byte {
	var tree interface{}
	if json.Unmarshal(doc, &tree) != nil {
		return doc
	}
	// collect the slots (parent container + key) of every node
	type slot struct {
		m map[string]interface{}
		k string
		a []interface{}
		i int
	}
	var slots []slot
	var walk func(v interface{})
	walk = func(v interface{}) {
		switch tv := v.(type) {
		case map[string]interface{}:
			keys := make([]string, 0, len(tv))
			for k := range tv {
				keys = append(keys, k)
			}
			sort.Strings(keys)
			for _, k := range keys {
				slots = append(slots, slot{m: tv, k: k})
				walk(tv[k])
			}
		case []interface{}:
			for i := range tv {
				slots = append(slots, slot{a: tv, i: i})
				walk(tv[i])
			}
		}
	}
	walk(tree)
	if len(slots) == 0 {
		return doc
	}
	sl := slots[rapid.IntRange(0, len(slots)-1).Draw(t, "slot")]
	repl := []interface{}{nil, true, "", "zz", "0", "ABC", "00", 0.0, -1.0, 1.5, 1e300, -1e300, 255.0, 256.0, 9007199254740993.0,
		[]interface{}{}, []interface{}{0.0}, []interface{}{1.0, nil}, []interface{}{300.0, map[string]interface{}{}}, []interface{}{1.0, 2.0, 3.0}, map[string]interface{}{},
		"2019-01-01T00:00:00.000Z", "0000-00-00T00:00:00.000Z", "2019-01-01T00:00:00Z"}
	var nv interface{}
	del := false
	switch rapid.IntRange(0, 3).Draw(t, "jmut") {
	case 0, 1:
		nv = repl[rapid.IntRange(0, len(repl)-1).Draw(t, "repl")]
	case 2:
		del = true
	default:
		// wrap / unwrap
		if sl.m != nil {
			nv = []interface{}{sl.m[sl.k]}
		} else {
			nv = map[string]interface{}{"x": sl.a[sl.i]}
		}
	}
	if sl.m != nil {
		if del {
			delete(sl.m, sl.k)
		} else {
			sl.m[sl.k] = nv
		}
	} else {
		sl.a[sl.i] = nv
	}
	out, err := json.Marshal(tree)
	if err != nil {
		return doc
	}
	return out
}

func genDecode(t *rapid.T) DecodeCase {
	targets := allTargets()
	// unbiased choice of the target
	ix := rapid.Uint64Range(0, 1<<40).Draw(t, "targetSel")
	c := DecodeCase{Target: targets[int((ix*0x9E3779B97F4A7C15>>20)%uint64(len(targets)))]}
	fam := c.Target[:strings.Index(c.Target, ":")]
	var data []byte
	switch rapid.IntRange(0, 9).Draw(t, "base") {
	case 0, 1:
		data = rapid.SliceOfN(rapid.Byte(), 0, 48).Draw(t, "raw")
		if fam == "msg" && len(data) > 0 && rapid.Bool().Draw(t, "fixType") {
			data[0] = rapid.SampledFrom([]byte{0x01, 0x02, 0x10, 0x11, 0x12, 0x13, 0x14, 0x15, 0x16, 0x17, 0x20, 0x21}).Draw(t, "typeByte")
		}
		c.Data, c.Origin = data, "raw"
		return c
	case 2, 3, 4:
		if fam == codecBin || fam == "msg" {
			if hd, ok := hostileEncoding(t, c.Target); ok {
				c.Data, c.Origin = hd, "hostile-length-prefix"
				return c
			}
		}
		data = validEncoding(t, c.Target)
	default:
		data = validEncoding(t, c.Target)
	}
	nm := rapid.SampledFrom([]int{0, 1, 1, 1, 1, 2, 2, 3}).Draw(t, "nmut")
	for i := 0; i < nm; i++ {
		switch {
		case fam == codecJSON && rapid.IntRange(0, 3).Draw(t, "jsonTree") > 0:
			data = mutateJSON(t, data)
		case fam == codecRLP && rapid.Bool().Draw(t, "rlpTree"):
			data = mutateRLPTree(t, data)
		default:
			data = mutateBytes(t, data)
		}
	}
	c.Data, c.Origin = data, fmt.Sprintf("valid+%dmut", nm)
	return c
}

func TestDecode(t *testing.T) {
	if !h.Replaying() {
		// guard against vacuity of the position-aware splicing: the independent layout must
		// agree with wire.BinaryBytes on (nearly) all generated values
		agree, total := 0, 0
		for _, tg := range allTargets() {
			if !strings.HasPrefix(tg, "bin:") && !strings.HasPrefix(tg, "msg:") {
				continue
			}
			for k := 0; k < 6; k++ {
				total++
				if l, _ := binLayout(playSrc(detTape(uint64(k)*131+uint64(len(tg)), 4000)), tg); l != nil && l.ok {
					agree++
				}
			}
		}
		if agree != total {
			t.Fatalf("layout walker agrees with wire.BinaryBytes on only %d of %d values", agree, total)
		}
		h.Note("C18", "decode", "length-prefix layout agrees with wire.BinaryBytes on %d of %d sample values", agree, total)
	}
	h.Check(t, h.Spec[DecodeCase]{Prop: "C18", Leg: "decode", Gen: genDecode, Run: func(c DecodeCase, x *h.Ctx) { runDecode(c, x) }})
}

// ---- seed corpus + native fuzz ---------------------------------------------------------------

// fuzz target name -> decoder target; one native fuzz target per byte-level decoder family.
var fuzzTargets = map[string]string{
	"FuzzBinBlock":          "bin:Block",
	"FuzzBinCommit":         "bin:Commit",
	"FuzzBinVote":           "bin:Vote",
	"FuzzBinPart":           "bin:Part",
	"FuzzBinState":          "bin:State",
	"FuzzBinNodeInfo":       "bin:NodeInfo",
	"FuzzMsgConsensus":      "msg:consensus",
	"FuzzMsgBlockchain":     "msg:blockchain",
	"FuzzMsgMempool":        "msg:mempool",
	"FuzzMsgPex":            "msg:pex",
	"FuzzJSONWAL":           "json:TimedWALMessage",
	"FuzzJSONGenesis":       "json:GenesisDoc",
	"FuzzJSONPrivValidator": "json:PrivValidator",
	"FuzzRLPTx":             "rlp:tx",
	"FuzzRLPKV":             "rlp:KV",
	"FuzzRLPKVs":            "rlp:KVs",
	"FuzzRLPGeneric":        "rlp:rB",
	"FuzzRLPAny":            "rlp:any",
}

// readCorpusFile parses a "go test fuzz v1" file with a single []byte argument.
func readCorpusFile(path string) ([]byte, bool) {
	raw, err := os.ReadFile(path)
	if err != nil {
		return nil, false
	}
	lines := strings.Split(strings.TrimSpace(string(raw)), "\n")
	if len(lines) < 2 || !strings.HasPrefix(lines[0], "go test fuzz v1") {
		return nil, false
	}
	l := strings.TrimSpace(lines[1])
	if !strings.HasPrefix(l, "[]byte(") || !strings.HasSuffix(l, ")") {
		return nil, false
	}
	s, err := strconv.Unquote(l[len("[]byte(") : len(l)-1])
	if err != nil {
		return nil, false
	}
	return []byte(s), true
}

func corpusCases() []DecodeCase {
	var out []DecodeCase
	names := make([]string, 0, len(fuzzTargets))
	for n := range fuzzTargets {
		names = append(names, n)
	}
	sort.Strings(names)
	for _, n := range names {
		files, _ := filepath.Glob(filepath.Join("testdata", "fuzz", n, "*"))
		sort.Strings(files)
		for _, f := range files {
			if b, ok := readCorpusFile(f); ok {
				out = append(out, DecodeCase{Target: fuzzTargets[n], Data: b})
			}
		}
	}
	return out
}

// TestCorpusReplay (quick tier) runs the seed corpus and every crasher the native fuzzers left in
// testdata/fuzz through the same oracle; C18_WRITE_SEEDS=1 regenerates the seed files.
func TestCorpusReplay(t *testing.T) {
	var rc DecodeCase
	p := h.NewPlain(t, "C18", "corpus")
	if h.ReplayCase("C18", "corpus", &rc) {
		p.Case(rc, func(x *h.Ctx) { runDecode(rc, x) })
		return
	}
	if h.Replaying() {
		t.Skip()
	}
	if os.Getenv("C18_WRITE_SEEDS") != "" {
		writeSeeds(t)
	}
	cases := corpusCases()
	if len(cases) < len(fuzzTargets) {
		t.Fatalf("seed corpus missing: %d files for %d fuzz targets", len(cases), len(fuzzTargets))
	}
	for _, c := range cases {
		c := c
		if !p.Case(c, func(x *h.Ctx) { runDecode(c, x) }) {
			return
		}
	}
	h.Note("C18", "corpus", "%d corpus files replayed", len(cases))
}

// detSrc is a deterministic (seeded splitmix) tape player used only to write seed files.
func detTape(seed uint64, n int) Tape {
	var tp Tape
	x := seed
	next := func() uint64 {
		x += 0x9E3779B97F4A7C15
		z := x
		z = (z ^ (z >> 30)) * 0xBF58476D1CE4E5B9
		z = (z ^ (z >> 27)) * 0x94D049BB133111EB
		return z ^ (z >> 31)
	}
	for i := 0; i < n; i++ {
		tp.I = append(tp.I, int64(next()%7))
		tp.B = append(tp.B, expand(next(), int(next()%24)))
	}
	return tp
}

func writeSeeds(t *testing.T) {
	for name, target := range fuzzTargets {
		dir := filepath.Join("testdata", "fuzz", name)
		os.MkdirAll(dir, 0o755)
		i := strings.Index(target, ":")
		fam, tn := target[:i], target[i+1:]
		for k := 0; k < 4; k++ {
			s := playSrc(detTape(uint64(k+1)*7919+uint64(len(name)), 4000))
			var data []byte
			switch fam {
			case codecRLP:
				tg := rlpTargetByName(tn)
				typ := tg.typ
				if typ == nil {
					typ = tOf(txMirror{})
				}
				f := &filler{s: s, codec: codecRLP}
				pv := reflect.New(typ)
				f.fillRLP(pv.Elem(), 0)
				data, _ = refrlp.EncodeToBytes(pv.Interface())
			default:
				codec := fam
				if fam == "msg" {
					tn, codec = msgKind[tn], codecBin
				}
				spec := kindByName[tn]
				pv, _ := buildValue(spec, codec, s)
				if codec == codecBin {
					data = wire.BinaryBytes(encodable(pv, !spec.valOnly))
				} else {
					data = wire.JSONBytes(encodable(pv, !spec.valOnly))
				}
				if fam == "msg" {
					tn = target[i+1:]
				}
			}
			body := fmt.Sprintf("go test fuzz v1\n[]byte(%q)\n", data)
			if err := os.WriteFile(filepath.Join(dir, fmt.Sprintf("seed-%d", k)), []byte(body), 0o644); err != nil {
				t.Fatal(err)
			}
		}
		os.WriteFile(filepath.Join(dir, "seed-empty"), []byte("go test fuzz v1\n[]byte(\"\")\n"), 0o644)
		if fam == codecBin || fam == "msg" {
			// hostile length prefixes at real prefix positions
			nh := 0
			for k := 0; k < 40 && nh < 8; k++ {
				l, ok := binLayout(playSrc(detTape(uint64(k+1)*104729+uint64(len(name)), 4000)), target)
				if !ok {
					continue
				}
				p := l.pre[(k*7)%len(l.pre)]
				hv := hostileVarints(p.off, len(l.buf), prefixTruth(l, p))
				pick := []int{0, 7, 8, 15, 24, 25, 33, 36}[nh] // MaxInt64, MaxInt64-n.., 2^62, leading zeros, negative..
				data := splice(l.buf, p, hv[pick%len(hv)])
				body := fmt.Sprintf("go test fuzz v1\n[]byte(%q)\n", data)
				os.WriteFile(filepath.Join(dir, fmt.Sprintf("seed-hostile-%d", nh)), []byte(body), 0o644)
				nh++
			}
		}
	}
}

// fuzzLeg is the body shared by the native fuzz targets. Workers record (sampled) evidence into
// their own shard; the coordinator converts a crasher into a replay file of the "decode" leg and
// prints the VIOLATION-FOUND line the driver looks for.
func fuzzLeg(f *testing.F, name string) {
	target := fuzzTargets[name]
	leg := "fuzz-" + strings.ToLower(strings.TrimPrefix(name, "Fuzz"))
	h.Note("C18", leg, "native fuzz target %s -> %s", name, target)
	f.Add([]byte{})
	f.Cleanup(func() {
		if !f.Failed() || isFuzzWorker() {
			return
		}
		for _, c := range corpusCases() {
			if c.Target != target {
				continue
			}
			m := &miniCtx{}
			func() {
				defer func() {
					if p := recover(); p != nil {
						m.Fail("panic:harness", "%v", p)
					}
				}()
				runDecode(c, m)
			}()
			if m.sig == "" {
				continue
			}
			cb, _ := json.Marshal(c)
			rf := map[string]any{"property": "C18", "leg": "decode", "test": "TestDecode", "violation": map[string]string{"sig": m.sig, "msg": m.msg}, "case": json.RawMessage(cb)}
			dir := os.Getenv("VERIF_REPLAY_OUT")
			if dir == "" {
				dir = "/verif/replay"
			}
			os.MkdirAll(dir, 0o755)
			b, _ := json.MarshalIndent(rf, "", " ")
			path := filepath.Join(dir, fmt.Sprintf("C18-decode-fuzz-%s-%x.json", strings.ToLower(name), fnv(cb)))
			os.WriteFile(path, b, 0o644)
			fmt.Printf("VIOLATION-FOUND property=C18 leg=%s sig=%s replay=%s\n", leg, m.sig, path)
			return
		}
	})
	f.Fuzz(func(t *testing.T, data []byte) {
		c := DecodeCase{Target: target, Data: data}
		m := &miniCtx{}
		runDecode(c, m)
		h.NewPlain(t, "C18", leg).Case(c, func(x *h.Ctx) {
			for _, l := range m.labels {
				if !strings.HasPrefix(l, "target:") {
					x.Label(l)
				}
			}
			for _, k := range m.known {
				x.Fail(k, "hit by native fuzzing")
			}
			if m.nontrivial {
				x.NonTrivial(target, strings.Join(m.labels, ","))
			}
		})
		if m.sig != "" {
			t.Fatalf("[%s] %s", m.sig, m.msg)
		}
	})
}

func fnv(b []byte) uint64 {
	var hh uint64 = 14695981039346656037
	for _, c := range b {
		hh ^= uint64(c)
		hh *= 1099511628211
	}
	return hh
}

func FuzzBinBlock(f *testing.F)          { fuzzLeg(f, "FuzzBinBlock") }
func FuzzBinCommit(f *testing.F)         { fuzzLeg(f, "FuzzBinCommit") }
func FuzzBinVote(f *testing.F)           { fuzzLeg(f, "FuzzBinVote") }
func FuzzBinPart(f *testing.F)           { fuzzLeg(f, "FuzzBinPart") }
func FuzzBinState(f *testing.F)          { fuzzLeg(f, "FuzzBinState") }
func FuzzBinNodeInfo(f *testing.F)       { fuzzLeg(f, "FuzzBinNodeInfo") }
func FuzzMsgConsensus(f *testing.F)      { fuzzLeg(f, "FuzzMsgConsensus") }
func FuzzMsgBlockchain(f *testing.F)     { fuzzLeg(f, "FuzzMsgBlockchain") }
func FuzzMsgMempool(f *testing.F)        { fuzzLeg(f, "FuzzMsgMempool") }
func FuzzMsgPex(f *testing.F)            { fuzzLeg(f, "FuzzMsgPex") }
func FuzzJSONWAL(f *testing.F)           { fuzzLeg(f, "FuzzJSONWAL") }
func FuzzJSONGenesis(f *testing.F)       { fuzzLeg(f, "FuzzJSONGenesis") }
func FuzzJSONPrivValidator(f *testing.F) { fuzzLeg(f, "FuzzJSONPrivValidator") }
func FuzzRLPTx(f *testing.F)             { fuzzLeg(f, "FuzzRLPTx") }
func FuzzRLPKV(f *testing.F)             { fuzzLeg(f, "FuzzRLPKV") }
func FuzzRLPKVs(f *testing.F)            { fuzzLeg(f, "FuzzRLPKVs") }
func FuzzRLPGeneric(f *testing.F)        { fuzzLeg(f, "FuzzRLPGeneric") }
func FuzzRLPAny(f *testing.F)            { fuzzLeg(f, "FuzzRLPAny") }
