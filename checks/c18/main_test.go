// C18: codecs — round trip, bounded robust decoding, RLP differential, injective sign-bytes.
//
// Shared machinery of the package:
//   - a "tape" draw source: generators are written once against *src; in Gen the source is backed
//     by rapid (and records every draw), in Run / replay it is backed by the recorded tape. The
//     tape IS the JSON case, so Run is a pure function of the case and draws nothing.
//   - a reflection-driven filler that builds values of every wire type (also the unexported
//     concrete message types, which are reachable through go-wire's exported interface registry).
//   - a normalising deep equality that is independent of the code under test.
package c18

import (
	"fmt"
	"math"
	"math/big"
	"os"
	"reflect"
	"sort"
	"strings"
	"testing"
	"time"
	"unicode/utf8"

	wire "github.com/dappledger/AnnChain/gemmill/go-wire"
	glog "github.com/dappledger/AnnChain/gemmill/modules/go-log"
	"go.uber.org/zap"
	"pgregory.net/rapid"

	"verif/internal/h"
)

func TestMain(m *testing.M) {
	// PanicSanity & co. log a stack dump before panicking; keep the output quiet.
	glog.SetLog(zap.NewNop())
	// A native-fuzz worker process shares VERIF_EV_OUT with its coordinator; give every worker
	// its own evidence shard (the driver merges every <ID>-*.json of the shard directory).
	if isFuzzWorker() {
		if out := os.Getenv("VERIF_EV_OUT"); out != "" {
			os.Setenv("VERIF_EV_OUT", strings.TrimSuffix(out, ".json")+fmt.Sprintf("-w%d.json", os.Getpid()))
		}
	}
	h.Main(m)
}

func isFuzzWorker() bool {
	for _, a := range os.Args {
		if strings.HasPrefix(a, "-test.fuzzworker") {
			return true
		}
	}
	return false
}

// ---------------------------------------------------------------------------------------
// draw source

// Tape is the recorded sequence of draws: integers and byte strings, each in draw order.
type Tape struct {
	I []int64 `json:"i"`
	B []h.Hex `json:"b,omitempty"`
}

type src struct {
	rt     *rapid.T // nil: replay from the tape
	tape   *Tape
	pi, pb int
}

func recSrc(rt *rapid.T) *src { return &src{rt: rt, tape: &Tape{}} }
func playSrc(tp Tape) *src    { return &src{tape: &tp} }
func (s *src) recorded() Tape { return *s.tape }

// Int draws an integer in [lo,hi].
func (s *src) Int(lo, hi int64) int64 {
	if s.rt != nil {
		v := rapid.Int64Range(lo, hi).Draw(s.rt, "i")
		s.tape.I = append(s.tape.I, v)
		return v
	}
	if s.pi >= len(s.tape.I) {
		return lo
	}
	v := s.tape.I[s.pi]
	s.pi++
	if v < lo || v > hi {
		return lo
	}
	return v
}

func (s *src) N(n int) int { return int(s.Int(0, int64(n-1))) }

func (s *src) Bool() bool { return s.Int(0, 1) == 1 }

// Bytes draws a byte string with a length in [min,max].
func (s *src) Bytes(min, max int) []byte {
	if s.rt != nil {
		v := rapid.SliceOfN(rapid.Byte(), min, max).Draw(s.rt, "b")
		if v == nil {
			v = []byte{}
		}
		s.tape.B = append(s.tape.B, h.Hex(v))
		return append([]byte{}, v...)
	}
	if s.pb >= len(s.tape.B) {
		return make([]byte, min)
	}
	v := []byte(s.tape.B[s.pb])
	s.pb++
	out := append([]byte{}, v...)
	for len(out) < min {
		out = append(out, 0)
	}
	if len(out) > max {
		out = out[:max]
	}
	return out
}

var edgeInts = []int64{0, 1, -1, 127, 128, -128, -129, 255, 256, 65535, 65536, 1<<31 - 1, 1 << 31, -(1 << 31), -(1 << 31) - 1,
	1<<32 - 1, 1 << 32, 1<<53 - 1, 1 << 53, 1<<53 + 1, -(1 << 53), 1<<56 - 1, 1 << 56, math.MaxInt64, math.MaxInt64 - 1, math.MinInt64, math.MinInt64 + 1}

// I64 draws an int64 with emphasis on small values and on encoding boundaries.
func (s *src) I64() int64 {
	switch s.N(10) {
	case 0, 1, 2:
		return s.Int(0, 4)
	case 3:
		return s.Int(-3, -1)
	case 4:
		return edgeInts[s.N(len(edgeInts))]
	case 5:
		return s.Int(0, 1<<31)
	case 6:
		return s.Int(math.MinInt64, math.MaxInt64)
	case 7:
		return s.Int(1<<52, 1<<54)
	default:
		return s.Int(0, 1000000)
	}
}

var specialRunes = []rune{'"', '\\', '/', '\'', '<', '>', '&', '{', '}', '[', ']', ':', ',', ' ', 0, 1, 7, 8, 9, 10, 13, 27, 31, 127, 0x80, 0x85, 0xa0,
	0x2028, 0x2029, 0xfeff, 0xfffd, 0xffff, 0x10000, 0x1f600, 0x10ffff, 0xe9, 0x4e2d, 0x6587, 0x0430}

// Str draws a valid-UTF-8 string mixing ASCII, JSON meta characters, control characters and
// non-ASCII code points.
func (s *src) Str() string {
	n := 0
	switch s.N(8) {
	case 0:
		n = 0
	case 1, 2, 3, 4:
		n = 1 + s.N(8)
	case 5, 6:
		n = 1 + s.N(24)
	default:
		n = 1 + s.N(3)
	}
	var sb strings.Builder
	for i := 0; i < n; i++ {
		switch s.N(6) {
		case 0, 1, 2:
			sb.WriteByte("abcxyzABZ019-_."[s.N(15)])
		case 3:
			sb.WriteRune(specialRunes[s.N(len(specialRunes))])
		case 4:
			r := rune(s.Int(0, 0x10ffff))
			if !utf8.ValidRune(r) {
				r = 0xfffd
			}
			sb.WriteRune(r)
		default:
			sb.WriteByte(byte(s.Int(0x20, 0x7e)))
		}
	}
	return sb.String()
}

// ---------------------------------------------------------------------------------------
// reflection-driven value builder for go-wire types

const (
	codecBin  = "bin"
	codecJSON = "json"
)

var (
	timeType   = reflect.TypeOf(time.Time{})
	bigIntType = reflect.TypeOf(big.Int{})
)

type filler struct {
	s     *src
	codec string
	cheap int // >0 while filling the elements of a long slice: keep elements small

	// statistics for labels / the non-triviality rule
	nNil, nEmpty, nNonZero, nBigSlice, nTime, nSubMs, nPre1970, nIface int
}

// Integers are exercised on their full range in both codecs. (The JSON codec used to parse numbers
// through float64, which rounded every integer above 2^53; the generator was clamped to that range
// then. It is a recorded, repaired finding now - known_findings.json, C03/C18 - and the clamp is gone.)
func (f *filler) clampI(x int64) int64   { return x }
func (f *filler) clampU(x uint64) uint64 { return x }

func (f *filler) time() time.Time {
	// binary: "nanoseconds since epoch" (int64) => representable instants are 1678..2262;
	// JSON: layout 2006-01-02T15:04:05.000Z => years 0001..9999.
	lo, hi := int64(-9200000000000), int64(9200000000000)
	if f.codec == codecJSON {
		lo, hi = -62135596800000, 253402300799000
	}
	var ms int64
	switch f.s.N(8) {
	case 0, 1, 2:
		ms = f.s.Int(1400000000000, 2000000000000)
	case 3:
		ms = 0
	case 4:
		ms = f.s.Int(-5, 5)
	case 5:
		if f.s.Bool() {
			ms = lo
		} else {
			ms = hi
		}
	default:
		ms = f.s.Int(lo, hi)
	}
	ns := int64(0)
	if f.s.N(3) == 0 {
		ns = f.s.Int(0, 999999)
	}
	if ms == hi {
		ns = 0
	}
	t := time.Unix(ms/1000, (ms%1000)*1000000+ns)
	switch f.s.N(3) {
	case 0:
		t = t.UTC()
	case 1:
		t = t.In(time.FixedZone("x", int(f.s.Int(-12*3600, 14*3600))))
	}
	f.nTime++
	if ns != 0 {
		f.nSubMs++
	}
	if ms < 0 {
		f.nPre1970++
	}
	return t
}

func (f *filler) bytes() []byte {
	if f.cheap > 0 {
		return f.s.Bytes(0, 3)
	}
	switch f.s.N(12) {
	case 0, 1:
		return f.s.Bytes(0, 0)
	case 2, 3, 4, 5:
		return f.s.Bytes(1, 8)
	case 6, 7:
		return f.s.Bytes(20, 20)
	case 8:
		return f.s.Bytes(32, 32)
	case 9:
		return f.s.Bytes(0, 70)
	case 10:
		return f.s.Bytes(250, 260) // around the 1-byte / 2-byte length boundary
	default:
		if f.s.N(12) == 0 {
			// around the 2-byte / 3-byte length boundary; expanded from a seed (cheap to draw)
			n := int(f.s.Int(65530, 65540))
			return expand(uint64(f.s.Int(0, 1<<62)), n)
		}
		return f.s.Bytes(0, 300)
	}
}

func skipField(sf reflect.StructField) bool {
	return sf.PkgPath != "" || sf.Tag.Get("json") == "-"
}

func (f *filler) fill(rv reflect.Value) {
	rt := rv.Type()
	switch rt.Kind() {
	case reflect.Interface:
		ti := wire.GetTypeInfo(rt)
		if !ti.IsRegisteredInterface || len(ti.ByteToType) == 0 {
			f.nNil++
			return
		}
		keys := make([]int, 0, len(ti.ByteToType))
		for b := range ti.ByteToType {
			keys = append(keys, int(b))
		}
		sort.Ints(keys)
		k := f.s.Pick(len(keys)*4 + 1)
		if k == len(keys)*4 {
			f.nNil++
			return // nil interface value
		}
		crt := ti.ByteToType[byte(keys[k%len(keys)])]
		f.nIface++
		if crt.Kind() == reflect.Ptr {
			nv := reflect.New(crt.Elem()) // go-wire forbids nil pointers inside registered interfaces
			f.fill(nv.Elem())
			rv.Set(nv)
		} else {
			nv := reflect.New(crt).Elem()
			f.fill(nv)
			rv.Set(nv)
		}
	case reflect.Ptr:
		nilOdds := 5
		if f.cheap > 0 {
			nilOdds = 2
		}
		if f.s.N(nilOdds) == 0 {
			f.nNil++
			return
		}
		nv := reflect.New(rt.Elem())
		f.fill(nv.Elem())
		rv.Set(nv)
	case reflect.Struct:
		if rt == timeType {
			rv.Set(reflect.ValueOf(f.time()))
			return
		}
		for i := 0; i < rt.NumField(); i++ {
			if skipField(rt.Field(i)) {
				continue
			}
			f.fill(rv.Field(i))
		}
	case reflect.Slice:
		if rt.Elem().Kind() == reflect.Uint8 {
			b := f.bytes()
			if len(b) == 0 {
				f.nEmpty++
				if f.s.Bool() {
					return // nil rather than empty
				}
			} else {
				f.nNonZero++
			}
			rv.SetBytes(b)
			return
		}
		n := 0
		big := false
		switch c := f.s.N(50); {
		case c < 12:
			n = 0
		case c < 40:
			n = 1 + f.s.N(3)
		case c < 49 || f.cheap > 0:
			n = 4 + f.s.N(30)
		default:
			// go-wire reads slices in chunks of 1024 elements: straddle the chunk boundary
			n = 1022 + f.s.N(5) + 1024*f.s.N(2)
			big = true
		}
		if f.cheap > 0 && n > 3 {
			n = 3
		}
		if n == 0 {
			f.nEmpty++
			if f.s.Bool() {
				return
			}
			rv.Set(reflect.MakeSlice(rt, 0, 0))
			return
		}
		sl := reflect.MakeSlice(rt, n, n)
		if n > 3 {
			f.cheap++
		}
		for i := 0; i < n; i++ {
			f.fill(sl.Index(i))
		}
		if n > 3 {
			f.cheap--
		}
		if big {
			f.nBigSlice++
		}
		rv.Set(sl)
	case reflect.Array:
		if rt.Elem().Kind() == reflect.Uint8 {
			var b []byte
			if f.s.N(6) == 0 {
				b = make([]byte, rt.Len())
			} else {
				b = f.s.Bytes(rt.Len(), rt.Len())
				f.nNonZero++
			}
			reflect.Copy(rv, reflect.ValueOf(b))
			return
		}
		for i := 0; i < rt.Len(); i++ {
			f.fill(rv.Index(i))
		}
	case reflect.String:
		st := f.s.Str()
		if st != "" {
			f.nNonZero++
		}
		rv.SetString(st)
	case reflect.Int64, reflect.Int:
		x := f.clampI(f.s.I64())
		if x != 0 {
			f.nNonZero++
		}
		rv.SetInt(x)
	case reflect.Int32:
		rv.SetInt(int64(int32(f.s.I64())))
	case reflect.Int16:
		rv.SetInt(int64(int16(f.s.I64())))
	case reflect.Int8:
		rv.SetInt(int64(int8(f.s.I64())))
	case reflect.Uint64, reflect.Uint:
		x := f.clampU(uint64(f.s.I64()))
		if x != 0 {
			f.nNonZero++
		}
		rv.SetUint(x)
	case reflect.Uint32:
		rv.SetUint(uint64(uint32(f.s.I64())))
	case reflect.Uint16:
		rv.SetUint(uint64(uint16(f.s.I64())))
	case reflect.Uint8:
		x := uint64(uint8(f.s.Int(0, 255)))
		if x != 0 {
			f.nNonZero++
		}
		rv.SetUint(x)
	case reflect.Bool:
		rv.SetBool(f.s.Bool())
	default:
		panic(fmt.Sprintf("c18 filler: kind %v (type %v) is not a go-wire type", rt.Kind(), rt))
	}
}

// ---------------------------------------------------------------------------------------
// normalising equality (independent of the codecs)
//
// normDiff returns "" when a and b are equal up to the normalisations a go-wire round trip is
// entitled to make, else the path of the first difference:
//   - nil slice == empty slice: both codecs write a length of 0 / "" / [] for either, every
//     consumer in the tree uses len() or bytes.Equal on these fields;
//   - time.Time compares as an instant at the wire precision (milliseconds, documented in
//     go-wire/time.go); location and monotonic clock reading are not part of the wire value;
//   - unexported fields and fields tagged json:"-" are not wire fields (they are caches: Commit.hash,
//     Data.hash, Part.hash, ValidatorSet.proposer/totalVotingPower, or runtime handles: State.db);
//   - big.Int compares by value.
func normDiff(a, b reflect.Value, path string) string { return normDiffOpt(a, b, path, false) }

// normDiffLax is normDiff for values that were not produced by the typed generators (values a
// decoder returned for arbitrary bytes): a time.Time outside the int64-nanosecond range of the
// binary codec (only the untouched Go zero value time.Time{} can occur there, when the input
// ended before / a nil pointer stood in front of the field) is not a wire value and is not compared.
func normDiffLax(a, b reflect.Value, path string) string { return normDiffOpt(a, b, path, true) }

func normDiffOpt(a, b reflect.Value, path string, lax bool) string {
	if a.IsValid() != b.IsValid() {
		return path + "(validity)"
	}
	if !a.IsValid() {
		return ""
	}
	if a.Type() != b.Type() {
		return fmt.Sprintf("%s(type %v vs %v)", path, a.Type(), b.Type())
	}
	switch a.Kind() {
	case reflect.Interface, reflect.Ptr:
		if a.IsNil() != b.IsNil() {
			return path + "(nil-ness)"
		}
		if a.IsNil() {
			return ""
		}
		if a.Kind() == reflect.Ptr && a.Type().Elem() == bigIntType {
			if a.Interface().(*big.Int).Cmp(b.Interface().(*big.Int)) != 0 {
				return path
			}
			return ""
		}
		return normDiffOpt(a.Elem(), b.Elem(), path, lax)
	case reflect.Struct:
		if a.Type() == timeType {
			ta, tb := a.Interface().(time.Time), b.Interface().(time.Time)
			if lax && (ta.Year() < 1679 || ta.Year() > 2261) {
				return ""
			}
			if !timeEq(ta, tb) {
				return path + "(time)"
			}
			return ""
		}
		if a.Type() == bigIntType {
			x, y := a.Interface().(big.Int), b.Interface().(big.Int)
			if x.Cmp(&y) != 0 {
				return path
			}
			return ""
		}
		for i := 0; i < a.NumField(); i++ {
			sf := a.Type().Field(i)
			if skipField(sf) {
				continue
			}
			if d := normDiffOpt(a.Field(i), b.Field(i), path+"."+sf.Name, lax); d != "" {
				return d
			}
		}
		return ""
	case reflect.Slice, reflect.Array:
		if a.Len() != b.Len() {
			return fmt.Sprintf("%s(len %d vs %d)", path, a.Len(), b.Len())
		}
		for i := 0; i < a.Len(); i++ {
			if d := normDiffOpt(a.Index(i), b.Index(i), path+"[]", lax); d != "" {
				return d
			}
		}
		return ""
	case reflect.String:
		if a.String() != b.String() {
			return path
		}
	case reflect.Bool:
		if a.Bool() != b.Bool() {
			return path
		}
	case reflect.Int, reflect.Int8, reflect.Int16, reflect.Int32, reflect.Int64:
		if a.Int() != b.Int() {
			return path
		}
	case reflect.Uint, reflect.Uint8, reflect.Uint16, reflect.Uint32, reflect.Uint64:
		if a.Uint() != b.Uint() {
			return path
		}
	default:
		return path + "(unsupported kind)"
	}
	return ""
}

// timeEq: b is a's wire image. The wire precision is 1 ms: an instant already on a millisecond
// must come back exactly; otherwise it comes back on a millisecond less than 1 ms away (the two
// codecs round differently for instants before 1970: truncation vs. floor; either is accepted).
func timeEq(a, b time.Time) bool {
	d := a.Sub(b)
	if d < 0 {
		d = -d
	}
	if a.Nanosecond()%1000000 == 0 {
		return d == 0
	}
	return d < time.Millisecond && b.Nanosecond()%1000000 == 0
}

// sigPath strips a diff path to its field names ("Block.Header.Time(time)" -> "Header.Time").
func sigPath(p string) string {
	if i := strings.Index(p, "("); i >= 0 {
		p = p[:i]
	}
	p = strings.ReplaceAll(p, "[]", "")
	return strings.TrimPrefix(p, ".")
}

// errClass reduces an error text to a stable class usable inside a signature.
func errClass(err error) string {
	s := err.Error()
	var sb strings.Builder
	for _, r := range s {
		switch {
		case r >= 'a' && r <= 'z', r >= 'A' && r <= 'Z':
			sb.WriteRune(r)
		case r == ' ' || r == ':' || r == '-':
			sb.WriteByte('-')
		}
		if sb.Len() >= 48 {
			break
		}
	}
	return strings.Trim(sb.String(), "-")
}

// ctx is the part of *h.Ctx the run functions need (native fuzz bodies use a private recorder
// so that engine-driven minimisation does not write replay files on every attempt).
type ctx interface {
	Fail(sig string, f string, a ...any) bool
	Failed() bool
	Label(l string)
	Labelf(f string, a ...any)
	NonTrivial(fp ...string)
}

type miniCtx struct {
	labels     []string
	nontrivial bool
	fp         string
	sig, msg   string
	known      []string
}

func (m *miniCtx) Fail(sig string, f string, a ...any) bool {
	if h.IsKnownFor("C18", sig) {
		m.known = append(m.known, sig)
		return false
	}
	if m.sig == "" {
		m.sig, m.msg = sig, fmt.Sprintf(f, a...)
	}
	return true
}
func (m *miniCtx) Failed() bool              { return m.sig != "" }
func (m *miniCtx) Label(l string)            { m.labels = append(m.labels, l) }
func (m *miniCtx) Labelf(f string, a ...any) { m.labels = append(m.labels, fmt.Sprintf(f, a...)) }
func (m *miniCtx) NonTrivial(fp ...string) {
	m.nontrivial = true
	if len(fp) > 0 {
		m.fp = strings.Join(fp, "|")
	}
}

// expand derives n pseudo-random bytes from a drawn seed (pure function of the draw).
func expand(seed uint64, n int) []byte {
	out := make([]byte, n)
	x := seed
	for i := range out {
		x += 0x9E3779B97F4A7C15
		z := x
		z = (z ^ (z >> 30)) * 0xBF58476D1CE4E5B9
		z = (z ^ (z >> 27)) * 0x94D049BB133111EB
		out[i] = byte(z ^ (z >> 31))
	}
	return out
}

// Pick draws an index in [0,n) without rapid's bias toward small values mattering for the
// distribution over table entries (the draw shrinks to 0 = first entry).
func (s *src) Pick(n int) int {
	x := uint64(s.Int(0, 1<<40))
	return int((x * 0x9E3779B97F4A7C15 >> 20) % uint64(n))
}

func lenBucket(n int) string {
	switch {
	case n == 0:
		return "0"
	case n <= 16:
		return "1-16"
	case n <= 256:
		return "17-256"
	case n <= 4096:
		return "257-4k"
	case n <= 65536:
		return "4k-64k"
	}
	return ">64k"
}
