// Leg (iv): the canonical bytes validators sign are injective in (chain id, height, round, type,
// block id = hash + parts total + parts hash) for votes and in (chain id, height, round, block
// parts header, POL round, POL block id) for proposals; equal tuples give equal bytes whatever the
// unsigned fields (validator index/address, signature) are.
package c18

import (
	"bytes"
	"fmt"
	"testing"
	"unicode/utf8"

	crypto "github.com/dappledger/AnnChain/gemmill/go-crypto"
	"github.com/dappledger/AnnChain/gemmill/types"
	"pgregory.net/rapid"

	"verif/internal/h"
)

type BIDm struct {
	Hash  h.Hex `json:"hash"`
	Total int   `json:"total"`
	PHash h.Hex `json:"phash"`
}

type Signed struct {
	Kind    string `json:"kind"` // vote | proposal
	ChainID string `json:"chain_id"`
	Height  int64  `json:"height"`
	Round   int64  `json:"round"`
	Type    byte   `json:"type"`     // vote
	Block   BIDm   `json:"block"`    // vote: BlockID; proposal: POLBlockID
	Parts   BIDm   `json:"parts"`    // proposal: BlockPartsHeader (Total, PHash)
	POL     int64  `json:"pol"`      // proposal
	ValIdx  int    `json:"val_idx"`  // unsigned
	ValAddr h.Hex  `json:"val_addr"` // unsigned
	Sig     h.Hex  `json:"sig"`      // unsigned
}

type SBCase struct {
	A Signed `json:"a"`
	B Signed `json:"b"`
}

func (b BIDm) blockID() types.BlockID {
	return types.BlockID{Hash: []byte(b.Hash), PartsHeader: types.PartSetHeader{Total: b.Total, Hash: []byte(b.PHash)}}
}

func (s Signed) signable() types.Signable {
	var sig crypto.Signature
	if len(s.Sig) > 0 {
		var e crypto.SignatureEd25519
		copy(e[:], s.Sig)
		sig = e
	}
	if s.Kind == "proposal" {
		return &types.Proposal{Height: s.Height, Round: s.Round,
			BlockPartsHeader: types.PartSetHeader{Total: s.Parts.Total, Hash: []byte(s.Parts.PHash)},
			POLRound:         s.POL, POLBlockID: s.Block.blockID(), Signature: sig}
	}
	return &types.Vote{ValidatorAddress: []byte(s.ValAddr), ValidatorIndex: s.ValIdx, Height: s.Height, Round: s.Round, Type: s.Type,
		BlockID: s.Block.blockID(), Signature: sig}
}

func bidEq(a, b BIDm) bool {
	return bytes.Equal(a.Hash, b.Hash) && a.Total == b.Total && bytes.Equal(a.PHash, b.PHash)
}

// sameTuple: equality of the signed tuple (nil and empty hashes are the same hash).
func sameTuple(a, b Signed) bool {
	if a.Kind != b.Kind || a.ChainID != b.ChainID || a.Height != b.Height || a.Round != b.Round || !bidEq(a.Block, b.Block) {
		return false
	}
	if a.Kind == "proposal" {
		return a.POL == b.POL && a.Parts.Total == b.Parts.Total && bytes.Equal(a.Parts.PHash, b.Parts.PHash)
	}
	return a.Type == b.Type
}

func genHash(t *rapid.T, label string) h.Hex {
	switch rapid.IntRange(0, 5).Draw(t, label+"Class") {
	case 0:
		return nil
	case 1:
		return rapid.SliceOfN(rapid.Byte(), 1, 3).Draw(t, label)
	case 2:
		return rapid.SliceOfN(rapid.Byte(), 20, 20).Draw(t, label)
	default:
		return rapid.SliceOfN(rapid.Byte(), 0, 6).Draw(t, label)
	}
}

func genI(t *rapid.T, label string) int64 {
	return rapid.OneOf(rapid.Int64Range(0, 3), rapid.Int64Range(-2, 12), rapid.SampledFrom(edgeInts), rapid.Int64()).Draw(t, label)
}

var chainAlphabet = []rune{'a', 'b', '0', '1', '-', '_', '"', '\\', '/', ',', ':', '{', '}', '[', ']', ' ', 'n', 'u', 0, 1, 8, 9, 10, 13, 27, 31, 127,
	'<', '>', '&', 0xe9, 0x4e2d, 0x2028, 0x2029, 0xfeff, 0xfffd, 0x1f600, 0x10ffff}

var chainTemplates = []string{"", "annchain", "test-chain", `a"`, `a\"`, `a\`, `a\\`, "a\\u0022", `","vote":{"block_id":{},"height":1,"round":0,"type":1}}`,
	`x","proposal":{`, "a\x00", "a\n", "a ", "\ufeffa", "A", "a ", " a", "a\t", `a\u0000`, "a\\n", "\"\"", "{}", "null", "é", "é", "中文链"}

func genChainID(t *rapid.T, label string) string {
	switch rapid.IntRange(0, 3).Draw(t, label+"Class") {
	case 0:
		return rapid.SampledFrom(chainTemplates).Draw(t, label)
	case 1:
		return string(rapid.SliceOfN(rapid.SampledFrom(chainAlphabet), 0, 8).Draw(t, label))
	case 2:
		s := rapid.String().Draw(t, label)
		if !utf8.ValidString(s) {
			return "x"
		}
		return s
	default:
		return rapid.SampledFrom(chainTemplates).Draw(t, label) + string(rapid.SliceOfN(rapid.SampledFrom(chainAlphabet), 0, 3).Draw(t, label+"Tail"))
	}
}

func genBID(t *rapid.T, label string) BIDm {
	if rapid.IntRange(0, 4).Draw(t, label+"Zero") == 0 {
		return BIDm{}
	}
	return BIDm{Hash: genHash(t, label+"Hash"), Total: int(rapid.OneOf(rapid.Int64Range(0, 3), rapid.Int64Range(-1, 300), rapid.Int64()).Draw(t, label+"Total")), PHash: genHash(t, label+"PHash")}
}

func genSigned(t *rapid.T, label string) Signed {
	s := Signed{Kind: rapid.SampledFrom([]string{"vote", "vote", "proposal"}).Draw(t, label+"Kind")}
	s.ChainID = genChainID(t, label+"Chain")
	s.Height, s.Round = genI(t, label+"H"), genI(t, label+"R")
	s.Block = genBID(t, label+"Block")
	if s.Kind == "vote" {
		s.Type = rapid.OneOf(rapid.SampledFrom([]byte{1, 2}), rapid.Byte()).Draw(t, label+"Type")
		s.ValIdx = rapid.IntRange(-1, 5).Draw(t, label+"Idx")
		s.ValAddr = genHash(t, label+"Addr")
	} else {
		s.Parts = BIDm{Total: int(rapid.Int64Range(-1, 300).Draw(t, label+"PTotal")), PHash: genHash(t, label+"PPHash")}
		s.POL = rapid.OneOf(rapid.Int64Range(-1, 3), rapid.Int64()).Draw(t, label+"POL")
	}
	if rapid.Bool().Draw(t, label+"Signed") {
		s.Sig = rapid.SliceOfN(rapid.Byte(), 1, 8).Draw(t, label+"Sig")
	}
	return s
}

func cloneHex(b h.Hex) h.Hex { return append(h.Hex(nil), b...) }

// mutateSigned changes one component of the tuple (or an unsigned field), favouring changes
// that a sloppy canonical form would lose.
func mutateSigned(t *rapid.T, s Signed) Signed {
	s.Block.Hash, s.Block.PHash, s.Parts.PHash = cloneHex(s.Block.Hash), cloneHex(s.Block.PHash), cloneHex(s.Parts.PHash)
	tweakHash := func(b h.Hex, label string) h.Hex {
		switch rapid.IntRange(0, 4).Draw(t, label+"Tw") {
		case 0:
			if len(b) > 0 {
				b[rapid.IntRange(0, len(b)-1).Draw(t, label+"At")] ^= 1 << uint(rapid.IntRange(0, 7).Draw(t, label+"Bit"))
				return b
			}
			return h.Hex{0}
		case 1:
			return append(b, 0)
		case 2:
			return append(h.Hex{0}, b...)
		case 3:
			if len(b) > 0 {
				return b[:len(b)-1]
			}
			return h.Hex{0xab}
		default:
			return genHash(t, label+"New")
		}
	}
	switch rapid.IntRange(0, 13).Draw(t, "field") {
	case 0:
		s.ChainID = genChainID(t, "mChain")
	case 1:
		// near-identical chain ids: append / prepend one character, change case, swap an escape
		r := string(rapid.SampledFrom(chainAlphabet).Draw(t, "mRune"))
		if rapid.Bool().Draw(t, "mFront") {
			s.ChainID = r + s.ChainID
		} else {
			s.ChainID += r
		}
	case 2:
		s.Height += rapid.SampledFrom([]int64{1, -1, 10, 1 << 32, 1 << 53}).Draw(t, "dH")
	case 3:
		s.Round += rapid.SampledFrom([]int64{1, -1, 10, 1 << 32, 1 << 53}).Draw(t, "dR")
	case 4:
		s.Height, s.Round = s.Round, s.Height
	case 5:
		if s.Kind == "vote" {
			s.Type = rapid.Byte().Draw(t, "mType")
		} else {
			s.POL += rapid.SampledFrom([]int64{1, -1, 1 << 40}).Draw(t, "dPOL")
		}
	case 6:
		s.Block.Hash = tweakHash(s.Block.Hash, "bh")
	case 7:
		s.Block.PHash = tweakHash(s.Block.PHash, "bph")
	case 8:
		s.Block.Total += rapid.SampledFrom([]int{1, -1, 10, 256}).Draw(t, "dTotal")
	case 9:
		s.Block.Hash, s.Block.PHash = s.Block.PHash, s.Block.Hash
	case 10:
		if s.Kind == "proposal" {
			if rapid.Bool().Draw(t, "pWhich") {
				s.Parts.PHash = tweakHash(s.Parts.PHash, "pph")
			} else {
				s.Parts.Total += rapid.SampledFrom([]int{1, -1, 256}).Draw(t, "dPTotal")
			}
		} else {
			s.Block = BIDm{}
		}
	case 11:
		if s.Kind == "proposal" {
			// move the identity between the proposal's own parts header and the POL block id
			s.Parts, s.Block = BIDm{Total: s.Block.Total, PHash: s.Block.PHash}, BIDm{Hash: s.Block.Hash, Total: s.Parts.Total, PHash: s.Parts.PHash}
		} else {
			s.Kind = "proposal"
		}
	case 12:
		// unsigned fields only
		s.ValIdx++
		s.ValAddr = append(cloneHex(s.ValAddr), 1)
		s.Sig = append(cloneHex(s.Sig), 7)
	default:
		if s.Kind == "vote" {
			s.Kind = "proposal"
		} else {
			s.Kind = "vote"
		}
	}
	return s
}

func genSB(t *rapid.T) SBCase {
	a := genSigned(t, "a")
	var b Signed
	switch rapid.IntRange(0, 9).Draw(t, "pairing") {
	case 0:
		b = genSigned(t, "b")
	case 1:
		b = mutateSigned(t, mutateSigned(t, a))
	default:
		b = mutateSigned(t, a)
	}
	return SBCase{A: a, B: b}
}

func runSB(c SBCase, x *h.Ctx) {
	if !utf8.ValidString(c.A.ChainID) || !utf8.ValidString(c.B.ChainID) {
		// chain ids come from genesis.json through encoding/json, i.e. are valid UTF-8
		x.Label("skipped:invalid-utf8-chain-id")
		return
	}
	var sa, sa2, sb []byte
	if p := safely(func() {
		sa = types.SignBytes(c.A.ChainID, c.A.signable())
		sa2 = types.SignBytes(c.A.ChainID, c.A.signable())
		sb = types.SignBytes(c.B.ChainID, c.B.signable())
	}); p != nil {
		x.Fail("signbytes-panics", "SignBytes panicked: %v", p)
		return
	}
	if !bytes.Equal(sa, sa2) {
		if x.Fail("signbytes-nondeterministic", "two SignBytes of one value differ: %s / %s", sa, sa2) {
			return
		}
	}
	same := sameTuple(c.A, c.B)
	eq := bytes.Equal(sa, sb)
	switch {
	case same && !eq:
		if x.Fail("signbytes-differ-for-equal-tuple", "equal signed tuples give different sign-bytes:\n %s\n %s", sa, sb) {
			return
		}
	case !same && eq:
		if x.Fail("signbytes-collision:"+diffField(c.A, c.B), "different signed tuples share sign-bytes %s (A=%+v B=%+v)", sa, c.A, c.B) {
			return
		}
	}
	x.Labelf("kind:%s/%s", c.A.Kind, c.B.Kind)
	if same {
		x.Label("pair:equal-tuple")
	} else {
		x.Labelf("pair:differs-in:%s", diffField(c.A, c.B))
	}
	var q, cc, na bool
	for _, r := range c.A.ChainID + c.B.ChainID {
		switch {
		case r == '"' || r == '\\':
			q = true
		case r < 0x20 || r == 0x7f:
			cc = true
		case r > 0x7f:
			na = true
		}
	}
	if q {
		x.Label("chain-id:quote-or-backslash")
	}
	if cc {
		x.Label("chain-id:control-char")
	}
	if na {
		x.Label("chain-id:non-ascii")
	}
	if c.A.Kind == c.B.Kind || same {
		x.NonTrivial()
	}
}

func diffField(a, b Signed) string {
	var d []string
	add := func(c bool, n string) {
		if c {
			d = append(d, n)
		}
	}
	add(a.Kind != b.Kind, "kind")
	add(a.ChainID != b.ChainID, "chain")
	add(a.Height != b.Height, "height")
	add(a.Round != b.Round, "round")
	add(a.Kind == "vote" && b.Kind == "vote" && a.Type != b.Type, "type")
	add(!bytes.Equal(a.Block.Hash, b.Block.Hash), "hash")
	add(a.Block.Total != b.Block.Total, "total")
	add(!bytes.Equal(a.Block.PHash, b.Block.PHash), "phash")
	add(a.Kind == "proposal" && b.Kind == "proposal" && (a.Parts.Total != b.Parts.Total || !bytes.Equal(a.Parts.PHash, b.Parts.PHash)), "parts")
	add(a.Kind == "proposal" && b.Kind == "proposal" && a.POL != b.POL, "pol")
	if len(d) == 0 {
		return "none"
	}
	if len(d) > 2 {
		return fmt.Sprintf("%d-fields", len(d))
	}
	out := d[0]
	for _, s := range d[1:] {
		out += "+" + s
	}
	return out
}

func TestSignBytes(t *testing.T) {
	h.Check(t, h.Spec[SBCase]{Prop: "C18", Leg: "signbytes", Gen: genSB, Run: runSB})
}
