// Leg (i): typed values of every consensus-critical wire type survive encode-then-decode in
// go-wire binary and go-wire JSON; encoding is deterministic and stable after a decode.
package c18

import (
	"bytes"
	"encoding/json"
	"fmt"
	"reflect"
	"sort"
	"testing"

	"github.com/dappledger/AnnChain/gemmill/blockchain"
	pbft "github.com/dappledger/AnnChain/gemmill/consensus/pbft"
	crypto "github.com/dappledger/AnnChain/gemmill/go-crypto"
	wire "github.com/dappledger/AnnChain/gemmill/go-wire"
	"github.com/dappledger/AnnChain/gemmill/mempool"
	gcmn "github.com/dappledger/AnnChain/gemmill/modules/go-common"
	"github.com/dappledger/AnnChain/gemmill/p2p"
	sm "github.com/dappledger/AnnChain/gemmill/state"
	"github.com/dappledger/AnnChain/gemmill/types"
	"pgregory.net/rapid"

	"verif/internal/h"
)

// kindSpec describes one top-level wire value as real callers encode it.
type kindSpec struct {
	name    string
	typ     reflect.Type
	codecs  []string // codecs real callers use for it
	ptrOnly bool     // value holds a lock / is always handled through a pointer
	valOnly bool     // interface wrapper structs are passed by value (DecodeMessage style)
	weight  int
}

func tOf(v any) reflect.Type { return reflect.TypeOf(v) }

var both = []string{codecBin, codecJSON}

// Where each kind is encoded in the tree:
//
//	Block: part sets (consensus), block store, bcBlockResponse; Header via BlockMeta; Commit: block
//	store (C:/SC: keys); Part: block store + BlockPartMessage; Vote/Proposal: reactor messages, WAL
//	(JSON), priv validator; ValidatorSet/GenesisDoc: inside sm.State (binary) and genesis.json (JSON);
//	State: state DB; ConsensusMessage: p2p (binary) and WAL msgInfo (JSON); TimedWALMessage: WAL lines
//	(JSON only); Blockchain/Mempool/Pex messages, NodeInfo: p2p (binary); PrivValidator: JSON file.
var kinds = []kindSpec{
	{name: "Vote", typ: tOf(types.Vote{}), codecs: both, weight: 3},
	{name: "Proposal", typ: tOf(types.Proposal{}), codecs: both, weight: 3},
	{name: "PartSetHeader", typ: tOf(types.PartSetHeader{}), codecs: both, weight: 1},
	{name: "BlockID", typ: tOf(types.BlockID{}), codecs: both, weight: 1},
	{name: "Part", typ: tOf(types.Part{}), codecs: both, weight: 2},
	{name: "Header", typ: tOf(types.Header{}), codecs: both, weight: 3},
	{name: "Commit", typ: tOf(types.Commit{}), codecs: both, weight: 3},
	{name: "Data", typ: tOf(types.Data{}), codecs: both, weight: 1},
	{name: "Block", typ: tOf(types.Block{}), codecs: both, weight: 4},
	{name: "BlockMeta", typ: tOf(types.BlockMeta{}), codecs: both, weight: 1},
	{name: "Validator", typ: tOf(types.Validator{}), codecs: both, weight: 1},
	{name: "ValidatorSet", typ: tOf(types.ValidatorSet{}), codecs: both, weight: 3},
	{name: "GenesisDoc", typ: tOf(types.GenesisDoc{}), codecs: both, weight: 2},
	{name: "PrivValidator", typ: tOf(types.PrivValidator{}), codecs: []string{codecJSON}, ptrOnly: true, weight: 2},
	{name: "State", typ: tOf(sm.State{}), codecs: []string{codecBin}, ptrOnly: true, weight: 4},
	{name: "ConsensusMessage", typ: tOf(struct{ pbft.ConsensusMessage }{}), codecs: both, valOnly: true, weight: 9},
	{name: "TimedWALMessage", typ: tOf(pbft.TimedWALMessage{}), codecs: []string{codecJSON}, weight: 6},
	{name: "BlockchainMessage", typ: tOf(struct{ blockchain.BlockchainMessage }{}), codecs: []string{codecBin}, valOnly: true, weight: 3},
	{name: "MempoolMessage", typ: tOf(struct{ mempool.MempoolMessage }{}), codecs: []string{codecBin}, valOnly: true, weight: 1},
	{name: "PexMessage", typ: tOf(struct{ p2p.PexMessage }{}), codecs: []string{codecBin}, valOnly: true, weight: 1},
	{name: "NodeInfo", typ: tOf(p2p.NodeInfo{}), codecs: both, weight: 2},
	{name: "Signature", typ: tOf(struct{ crypto.Signature }{}), codecs: both, valOnly: true, weight: 1},
	{name: "PubKey", typ: tOf(struct{ crypto.PubKey }{}), codecs: both, valOnly: true, weight: 1},
	{name: "PrivKey", typ: tOf(struct{ crypto.PrivKey }{}), codecs: both, valOnly: true, weight: 1},
	{name: "BitArray", typ: tOf(gcmn.BitArray{}), codecs: both, ptrOnly: true, weight: 1},
}

var (
	kindByName = map[string]*kindSpec{}
	kindPick   []int // weighted index table
)

func init() {
	for i := range kinds {
		kindByName[kinds[i].name] = &kinds[i]
		for w := 0; w < kinds[i].weight; w++ {
			kindPick = append(kindPick, i)
		}
	}
}

type RTCase struct {
	Kind  string `json:"kind"`
	Codec string `json:"codec"`
	ByPtr bool   `json:"by_ptr"`
	Tape  Tape   `json:"tape"`
}

// buildValue builds the value of the case from the draw source. It returns the addressable
// value (of the kind's struct type) and the filler statistics.
func buildValue(spec *kindSpec, codec string, s *src) (reflect.Value, *filler) {
	f := &filler{s: s, codec: codec}
	pv := reflect.New(spec.typ)
	f.fill(pv.Elem())
	return pv, f
}

func genRT(t *rapid.T) RTCase {
	s := recSrc(t)
	spec := &kinds[kindPick[s.Pick(len(kindPick))]]
	c := RTCase{Kind: spec.name}
	c.Codec = spec.codecs[s.N(len(spec.codecs))]
	switch {
	case spec.ptrOnly:
		c.ByPtr = true
	case spec.valOnly:
		c.ByPtr = false
	default:
		c.ByPtr = s.Bool()
	}
	buildValue(spec, c.Codec, s)
	c.Tape = s.recorded()
	return c
}

// rtValue rebuilds (kind header draws included) the value of a case.
func rtValue(c RTCase) (*kindSpec, reflect.Value, *filler) {
	s := playSrc(c.Tape)
	s.Pick(len(kindPick))
	spec := kindByName[c.Kind]
	if spec == nil {
		return nil, reflect.Value{}, nil
	}
	s.N(len(spec.codecs))
	if !spec.ptrOnly && !spec.valOnly {
		s.Bool()
	}
	pv, f := buildValue(spec, c.Codec, s)
	return spec, pv, f
}

func renderRT(c RTCase) any {
	out := map[string]any{"kind": c.Kind, "codec": c.Codec, "by_ptr": c.ByPtr, "tape_ints": len(c.Tape.I), "tape_blobs": len(c.Tape.B)}
	func() {
		defer func() { recover() }()
		_, pv, _ := rtValue(c)
		if pv.IsValid() {
			js := wire.JSONBytes(pv.Interface())
			if len(js) > 1500 {
				js = append(js[:1500], []byte("...")...)
			}
			out["value_json"] = string(js)
		}
	}()
	return out
}

func safely(f func()) (p any) {
	defer func() {
		if r := recover(); r != nil {
			p = r
		}
	}()
	f()
	return nil
}

// binDecode decodes the way the tree does: wire.ReadBinary on a prototype (pointer: &T{};
// value: T{}), a bytes reader and a limit.
func binDecode(spec *kindSpec, byPtr bool, data []byte, lmt int) (out reflect.Value, n int, err error, pnc any) {
	pnc = safely(func() {
		r := bytes.NewReader(data)
		if byPtr {
			res := wire.ReadBinary(reflect.New(spec.typ).Interface(), r, lmt, &n, &err)
			out = reflect.ValueOf(res)
		} else {
			res := wire.ReadBinary(reflect.Zero(spec.typ).Interface(), r, lmt, &n, &err)
			pv := reflect.New(spec.typ)
			pv.Elem().Set(reflect.ValueOf(res))
			out = pv
		}
	})
	return
}

func jsonDecode(spec *kindSpec, byPtr bool, data []byte) (out reflect.Value, err error, pnc any) {
	pnc = safely(func() {
		if byPtr {
			res := wire.ReadJSON(reflect.New(spec.typ).Interface(), data, &err)
			out = reflect.ValueOf(res)
		} else {
			res := wire.ReadJSON(reflect.Zero(spec.typ).Interface(), data, &err)
			pv := reflect.New(spec.typ)
			pv.Elem().Set(reflect.ValueOf(res))
			out = pv
		}
	})
	return
}

func encodable(pv reflect.Value, byPtr bool) any {
	if byPtr {
		return pv.Interface()
	}
	return pv.Elem().Interface()
}

func runRT(c RTCase, x *h.Ctx) {
	spec, pv, f := rtValue(c)
	if spec == nil {
		return
	}
	enc := encodable(pv, c.ByPtr)
	k := c.Kind
	switch c.Codec {
	case codecBin:
		var b1, b1b []byte
		if p := safely(func() { b1 = wire.BinaryBytes(enc); b1b = wire.BinaryBytes(enc) }); p != nil {
			x.Fail("bin-encode-panics", "%s: wire.BinaryBytes panicked: %v", k, p)
			return
		}
		if !bytes.Equal(b1, b1b) {
			if x.Fail("bin-encode-nondeterministic", "%s: two encodings of one value differ", k) {
				return
			}
		}
		out, n, err, pnc := binDecode(spec, c.ByPtr, b1, len(b1))
		if pnc != nil {
			x.Fail("bin-decode-of-own-encoding-panics", "%s: ReadBinary(limit=len) panicked on the encoding of a generated value: %v", k, pnc)
			return
		}
		if err != nil {
			if x.Fail("bin-decode-rejects-own-encoding:"+errClass(err), "%s: ReadBinary(limit=len=%d) of BinaryBytes(v): %v", k, len(b1), err) {
				return
			}
			return
		}
		if n != len(b1) {
			if x.Fail("bin-decode-count-differs", "%s: ReadBinary reports n=%d for an encoding of %d bytes", k, n, len(b1)) {
				return
			}
		}
		if d := normDiff(pv, out, ""); d != "" {
			if x.Fail("bin-roundtrip-differs:"+sigPath(d), "%s: decode(encode(v)) differs from v at %s", k, d) {
				return
			}
		}
		var b2 []byte
		if p := safely(func() { b2 = wire.BinaryBytes(encodable(out, c.ByPtr)) }); p != nil {
			x.Fail("bin-reencode-panics", "%s: re-encoding the decoded value panicked: %v", k, p)
			return
		}
		if !bytes.Equal(b1, b2) {
			if x.Fail("bin-reencode-differs", "%s: encode(decode(encode(v))) differs from encode(v) (%d vs %d bytes)", k, len(b2), len(b1)) {
				return
			}
		}
		// limit contract: an encoding longer than the limit is refused; no limit (0) and a large limit accept.
		if len(b1) > 1 {
			_, _, err2, p2 := binDecode(spec, c.ByPtr, b1, len(b1)-1)
			if p2 != nil {
				x.Fail("bin-decode-of-own-encoding-panics", "%s: ReadBinary(limit=len-1) panicked: %v", k, p2)
				return
			}
			if err2 == nil {
				if x.Fail("bin-limit-not-enforced", "%s: an encoding of %d bytes was accepted under limit %d", k, len(b1), len(b1)-1) {
					return
				}
			}
		}
		for _, lmt := range []int{0, len(b1) + 1<<20} {
			_, _, err3, p3 := binDecode(spec, c.ByPtr, b1, lmt)
			if p3 != nil || err3 != nil {
				if x.Fail("bin-decode-rejects-own-encoding:limit", "%s: ReadBinary(limit=%d) of a %d-byte encoding: err=%v panic=%v", k, lmt, len(b1), err3, p3) {
					return
				}
			}
		}
		x.Labelf("size:%s", lenBucket(len(b1)))
	case codecJSON:
		var j1, j1b []byte
		if p := safely(func() { j1 = wire.JSONBytes(enc); j1b = wire.JSONBytes(enc) }); p != nil {
			x.Fail("json-encode-panics", "%s: wire.JSONBytes panicked: %v", k, p)
			return
		}
		if !bytes.Equal(j1, j1b) {
			if x.Fail("json-encode-nondeterministic", "%s: two JSON encodings of one value differ", k) {
				return
			}
		}
		if !json.Valid(j1) {
			if x.Fail("json-encode-invalid", "%s: wire.JSONBytes produced invalid JSON: %.300s", k, j1) {
				return
			}
		}
		out, err, pnc := jsonDecode(spec, c.ByPtr, j1)
		if pnc != nil {
			x.Fail("json-decode-of-own-encoding-panics", "%s: ReadJSON panicked on the encoding of a generated value: %v", k, pnc)
			return
		}
		if err != nil {
			x.Fail("json-decode-rejects-own-encoding:"+errClass(err), "%s: ReadJSON(JSONBytes(v)): %v; json=%.300s", k, err, j1)
			return
		}
		if d := normDiff(pv, out, ""); d != "" {
			if x.Fail("json-roundtrip-differs:"+sigPath(d), "%s: decode(encode(v)) differs from v at %s; json=%.400s", k, d, j1) {
				return
			}
		}
		var j2 []byte
		if p := safely(func() { j2 = wire.JSONBytes(encodable(out, c.ByPtr)) }); p != nil {
			x.Fail("json-reencode-panics", "%s: re-encoding the decoded value panicked: %v", k, p)
			return
		}
		if !bytes.Equal(j1, j2) {
			if x.Fail("json-reencode-differs", "%s: encode(decode(encode(v))) differs from encode(v)", k) {
				return
			}
		}
		x.Labelf("size:%s", lenBucket(len(j1)))
	}
	// observable derived values that consumers compute from the decoded value
	x.Labelf("kind:%s/%s", k, c.Codec)
	if f.nNil > 0 {
		x.Label("has-nil")
	}
	if f.nEmpty > 0 {
		x.Label("has-empty-slice")
	}
	if f.nBigSlice > 0 {
		x.Label("has-slice>=1022")
	}
	if f.nTime > 0 {
		x.Label("has-time")
	}
	if f.nSubMs > 0 {
		x.Label("time-sub-ms")
	}
	if f.nPre1970 > 0 {
		x.Label("time-pre-1970")
	}
	if f.nIface > 0 {
		x.Label("has-interface-value")
	}
	if (f.nNil > 0 || f.nEmpty > 0) && f.nNonZero > 0 {
		x.NonTrivial()
	}
}

func TestRoundTrip(t *testing.T) {
	if !h.Replaying() {
		// guard against vacuity: the concrete types registered for the message / key interfaces
		// must be reachable by the generator (the filler panics on an unsupported kind)
		var names []string
		for _, k := range kinds {
			for ft := 0; ft < k.typ.NumField(); ft++ {
				sf := k.typ.Field(ft)
				if sf.Type.Kind() != reflect.Interface || skipField(sf) {
					continue
				}
				for b, crt := range wire.GetTypeInfo(sf.Type).ByteToType {
					names = append(names, fmt.Sprintf("%s/%02x=%v", k.name, b, crt))
				}
			}
		}
		sort.Strings(names)
		if len(names) < 25 {
			t.Fatalf("only %d registered concrete types reachable: %v", len(names), names)
		}
		h.Note("C18", "roundtrip", "registered concrete types reachable from the top-level kinds: %d", len(names))
	}
	h.Check(t, h.Spec[RTCase]{Prop: "C18", Leg: "roundtrip", Gen: genRT, Run: runRT, Render: renderRT})
}
