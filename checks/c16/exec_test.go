package c16

import (
	"bytes"
	"fmt"
	"testing"
	"time"

	"pgregory.net/rapid"

	dbm "github.com/dappledger/AnnChain/gemmill/modules/go-db"
	"github.com/dappledger/AnnChain/gemmill/modules/go-events"
	sm "github.com/dappledger/AnnChain/gemmill/state"
	"github.com/dappledger/AnnChain/gemmill/types"

	"verif/internal/h"
	"verif/internal/sim"
)

// Leg "execrecover": the validator set a replica continues with after a crash inside block
// execution. Two replicas run the same 1..6 blocks through the real State.ApplyBlock (ExecBlock
// -> SetBlockAndValidators -> SaveIntermediate -> application commit) and State.Save on their own
// databases; blocks may change the validator set (through the EndBlock plugin hook, as admin_op
// does). Replica B dies while it handles the last block, at one of the three points
// Angine.RecoverFromCrash distinguishes, and recovers the way RecoverFromCrash does:
//   - "before-commit":  the block is stored, nothing else happened      -> LoadState, ApplyBlock again
//   - "after-commit":   ApplyBlock finished, State.Save did not happen   -> LoadState, LoadIntermediate
//   - "after-save":     everything happened                              -> LoadState
// Oracles: (1) replica A's validator set after every block equals the independent model (the
// height's set, changed by the block, advanced by ONE single increment); (2) the recovered
// replica's State (height, Validators, LastValidators: members, powers, accums, hash) equals the
// replica that never crashed; (3) both name the same proposers for the next 1..8 rounds.

type BlockSpec struct {
	Changes []Op `json:"changes,omitempty"` // add | update | remove applied by EndBlock to the next set
}

type ExecCase struct {
	Vals   []ValSpec   `json:"vals"`
	Blocks []BlockSpec `json:"blocks"`
	Crash  string      `json:"crash"`
	Post   []int       `json:"post"`
}

func genExecCase(t *rapid.T) ExecCase {
	c := ExecCase{
		Vals:  genVals(t, 1),
		Crash: rapid.SampledFrom([]string{"after-commit", "after-commit", "before-commit", "after-save"}).Draw(t, "crash"),
	}
	nb := rapid.IntRange(1, 6).Draw(t, "blocks")
	for i := 0; i < nb; i++ {
		var b BlockSpec
		if rapid.IntRange(0, 3).Draw(t, "changes?") == 0 {
			n := rapid.IntRange(1, 3).Draw(t, "nchanges")
			for j := 0; j < n; j++ {
				b.Changes = append(b.Changes, genOp(t, []string{"add", "update", "update", "remove"}))
			}
		}
		c.Blocks = append(c.Blocks, b)
	}
	c.Post = rapid.SliceOfN(rapid.IntRange(1, 8), 1, 3).Draw(t, "post")
	return c
}

type acceptAll struct{}

func (acceptAll) ValidateBlock(*types.Block) error { return nil }

// execPlugin is the governance plugin of the leg: the changes of the block's height are applied to
// the next validator set in EndBlock, the way admin_op's validator update does it.
type execPlugin struct{ blocks []BlockSpec }

func (e execPlugin) BeginBlock(*types.Block, events.Fireable, *types.PartSetHeader) error { return nil }
func (e execPlugin) ExecBlock(*types.Block, events.Fireable, *types.ExecuteResult) error  { return nil }
func (e execPlugin) EndBlock(b *types.Block, _ events.Fireable, _ *types.PartSetHeader, _ []*types.ValidatorAttr, next *types.ValidatorSet) error {
	i := int(b.Height) - 1
	if i < 0 || i >= len(e.blocks) {
		return nil
	}
	for _, o := range e.blocks[i].Changes {
		applyChange(next, nil, o)
	}
	return nil
}

func applyChange(vs *types.ValidatorSet, m *mSet, o Op) {
	key := ((o.Key % poolSize) + poolSize) % poolSize
	power := o.Power
	if power < 1 {
		power = 1
	}
	if power > maxPower {
		power = maxPower
	}
	switch o.Op {
	case "add":
		if vs != nil && vs.Size() < maxValidators {
			vs.Add(types.NewValidator(pool[key].pub, power, o.CA))
		}
		if m != nil && len(m.vals) < maxValidators {
			m.add(mVal{key: key, power: power, ca: o.CA})
		}
	case "update":
		if vs != nil {
			if _, v := vs.GetByAddress(pool[key].addr); v != nil {
				v.VotingPower, v.IsCA = power, o.CA
				vs.Update(v)
			}
		}
		if m != nil {
			m.update(key, power, o.CA)
		}
	case "remove":
		if vs != nil && vs.Size() > 1 {
			vs.Remove(pool[key].addr)
		}
		if m != nil && len(m.vals) > 1 {
			m.remove(key)
		}
	}
}

func sameAsModel(vs *types.ValidatorSet, m *mSet) bool {
	if len(vs.Validators) != len(m.vals) {
		return false
	}
	for i, v := range vs.Validators {
		mv := m.vals[i]
		if !bytes.Equal(v.Address, pool[mv.key].addr) || v.VotingPower != mv.power || v.Accum != mv.accum || v.IsCA != mv.ca {
			return false
		}
	}
	return true
}

type execReplica struct {
	db dbm.DB
	st *sm.State
	ev types.EventSwitch
}

func newExecReplica(gd *types.GenesisDoc, blocks []BlockSpec) *execReplica {
	r := &execReplica{db: dbm.NewMemDB()}
	r.st = sm.MakeGenesisState(r.db, gd)
	r.ev = types.NewEventSwitch()
	r.ev.Start()
	types.AddListenerForEvent(r.ev, "c16", types.EventStringHookExecute(), func(ed types.TMEventData) {
		d := ed.(types.EventDataHookExecute)
		d.ResCh <- types.ExecuteResult{ValidTxs: d.Block.Data.Txs}
	})
	types.AddListenerForEvent(r.ev, "c16", types.EventStringHookCommit(), func(ed types.TMEventData) {
		d := ed.(types.EventDataHookCommit)
		d.ResCh <- types.CommitResult{AppHash: sim.AppHashOf(d.Block.AppHash, d.Block), ReceiptsHash: d.Block.Data.Hash()}
	})
	r.wire(blocks)
	r.st.Save()
	return r
}

func (r *execReplica) wire(blocks []BlockSpec) {
	r.st.SetBlockVerifier(acceptAll{})
	r.st.SetBlockExecutable(execPlugin{blocks})
}

func (r *execReplica) apply(b *types.Block, ph types.PartSetHeader) error {
	return r.st.ApplyBlock(r.ev, b, ph, &sim.Mempool{}, 0)
}

func runExecCase(c ExecCase, x *h.Ctx) {
	vals := normalise(c.Vals)
	if len(vals) == 0 || len(c.Blocks) == 0 {
		return
	}
	if len(c.Blocks) > 8 {
		c.Blocks = c.Blocks[:8]
	}
	gd := &types.GenesisDoc{ChainID: "c16x", GenesisTime: fixedTime}
	for _, v := range vals {
		gd.Validators = append(gd.Validators, types.GenesisValidator{PubKey: pool[v.Key].pub, Amount: v.Power, IsCA: v.CA})
	}
	_, m := build("new", vals)
	A, B := newExecReplica(gd, c.Blocks), newExecReplica(gd, c.Blocks)
	defer A.ev.Stop()
	defer B.ev.Stop()
	if !sameAsModel(A.st.Validators, m) {
		x.Fail("genesis-set-differs-from-model", "genesis state %s, model %s", dumpSet(A.st.Validators), m)
		return
	}
	changed := false
	last := len(c.Blocks) - 1
	var lastBlock *types.Block
	var lastPH types.PartSetHeader
	for i := range c.Blocks {
		s := A.st
		blk, ps := types.MakeBlock(int64(i+1), gd.ChainID, []types.Tx{types.Tx(fmt.Sprintf("tx-%d", i))}, nil, &types.Commit{}, s.Validators.Proposer().Address,
			s.LastBlockID, s.Validators.Hash(), s.AppHash, s.ReceiptsHash, 4096)
		blk.Header.Time = fixedTime.Add(time.Duration(i+1) * time.Second)
		ph := ps.Header()
		if err := A.apply(blk, ph); err != nil {
			x.Fail("applyblock-error", "block %d: %v", i+1, err)
			return
		}
		A.st.Save()
		// model: the block's changes on the next set, then exactly one round of rotation
		before := len(m.vals)
		for _, o := range c.Blocks[i].Changes {
			applyChange(nil, m, o)
		}
		if len(c.Blocks[i].Changes) > 0 {
			changed = true
		}
		_ = before
		m.inc1()
		if !sameAsModel(A.st.Validators, m) {
			if x.Fail("state-validators-differ-from-model", "after block %d the state's validator set is %s; the previous set changed by the block and advanced one round is %s", i+1, dumpSet(A.st.Validators), m) {
				return
			}
		}
		if i < last {
			if err := B.apply(blk, ph); err != nil {
				x.Fail("applyblock-error", "block %d: %v", i+1, err)
				return
			}
			B.st.Save()
		} else {
			lastBlock, lastPH = blk, ph
		}
	}
	// ---- replica B handles the last block, dies, and recovers
	appHash := A.st.AppHash // what the application reports after the last block
	switch c.Crash {
	case "before-commit":
		rec := sm.LoadState(B.db)
		B.st = rec
		B.wire(c.Blocks)
		if err := B.apply(lastBlock, lastPH); err != nil {
			x.Fail("applyblock-error", "replay of block %d: %v", last+1, err)
			return
		}
	case "after-save":
		if err := B.apply(lastBlock, lastPH); err != nil {
			x.Fail("applyblock-error", "block %d: %v", last+1, err)
			return
		}
		B.st.Save()
		B.st = sm.LoadState(B.db)
	default: // after-commit: the window RecoverFromCrash closes with LoadIntermediate
		if err := B.apply(lastBlock, lastPH); err != nil {
			x.Fail("applyblock-error", "block %d: %v", last+1, err)
			return
		}
		rec := sm.LoadState(B.db)
		if rec.LastBlockHeight != int64(last) {
			x.Fail("state-saved-before-save", "State at the state key is at height %d before State.Save of block %d", rec.LastBlockHeight, last+1)
			return
		}
		rec.LoadIntermediate()
		rec.AppHash = appHash
		B.st = rec
	}
	a, b := A.st, B.st
	where := "replica recovered (" + c.Crash + ")"
	if b.LastBlockHeight != a.LastBlockHeight || !b.LastBlockID.Equals(a.LastBlockID) {
		if x.Fail("recovered-state-at-other-block", "%s: at height %d, the running replica at %d", where, b.LastBlockHeight, a.LastBlockHeight) {
			return
		}
	}
	if !sameContent(a.Validators, b.Validators) || !bytes.Equal(a.Validators.Hash(), b.Validators.Hash()) {
		if x.Fail("recovered-validators-differ-from-running-replica", "%s: validator set for height %d is %s; on the replica that did not crash %s", where, b.LastBlockHeight+1, dumpSet(b.Validators), dumpSet(a.Validators)) {
			return
		}
	}
	if !sameContent(a.LastValidators, b.LastValidators) {
		if x.Fail("recovered-validators-differ-from-running-replica", "%s: LastValidators %s; on the replica that did not crash %s", where, dumpSet(b.LastValidators), dumpSet(a.LastValidators)) {
			return
		}
	}
	ka, kb := a.Validators.Copy(), b.Validators.Copy()
	for _, k := range c.Post {
		if k < 1 {
			k = 1
		}
		if k > 50 {
			k = 50
		}
		for i := 0; i < k; i++ {
			ka.IncrementAccum(1)
			kb.IncrementAccum(1)
			m.inc1()
		}
		if !bytes.Equal(propAddr(ka), propAddr(kb)) || !sameContent(ka, kb) {
			if x.Fail("recovered-replica-names-other-proposers", "%s: after %d more rounds it names k%d (%s), the running replica k%d (%s)", where, k, keyOf(propAddr(kb)), dumpSet(kb), keyOf(propAddr(ka)), dumpSet(ka)) {
				return
			}
		}
		if keyOf(propAddr(ka)) != m.expected() {
			if x.Fail("state-validators-differ-from-model", "running replica names k%d, the model k%d", keyOf(propAddr(ka)), m.expected()) {
				return
			}
		}
	}
	x.Label("crash:" + c.Crash)
	x.Labelf("n:%s", nBucket(len(vals)))
	if changed {
		x.Label("set-changed")
	}
	// a single validator (or any set where one round changes no accum) cannot show a lost increment
	if len(a.Validators.Validators) >= 2 {
		x.NonTrivial()
	}
}

func TestExecRecover(t *testing.T) {
	h.Check(t, h.Spec[ExecCase]{Prop: "C16", Leg: "execrecover", Gen: genExecCase, Run: runExecCase})
}
