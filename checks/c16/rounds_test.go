package c16

import (
	"bytes"
	"fmt"
	"testing"

	"pgregory.net/rapid"

	"github.com/dappledger/AnnChain/gemmill/consensus/pbft"
	"github.com/dappledger/AnnChain/gemmill/types"

	"verif/internal/h"
	"verif/internal/sim"
)

// Leg "rounds": the proposer a real ConsensusState expects for (height, round) must be the same
// on every replica - whether it stepped through every earlier round, skipped some (votes of a
// later round arrive first) or restarted (with the recorded finding proposer-cache-lost-on-
// reload neutralised by hook H3) - and must equal the reference: the validator set the height
// started with, advanced round times by single increments.

type RoundsCase struct {
	Powers []int64  `json:"powers"`
	Ops    []sim.Op `json:"ops"`
	// ViaSwitch: every node enters consensus through ConsensusReactor.SwitchToConsensus (what a
	// node with fast_sync enabled does once it has caught up - also on a fresh chain)
	ViaSwitch bool `json:"viaSwitch,omitempty"`
}

var roundOps = []string{
	"deliver", "deliver", "deliver", "deliver", "deliver",
	"own", "own", "own",
	"timeout", "timeout", "timeout", "timeout",
	"fair", "drop", "drop", "dup", "sync", "crashrestart", "lostproposal", "lostproposal", "lostproposal",
}

func genRoundsCase(t *rapid.T) RoundsCase {
	n := rapid.IntRange(2, 6).Draw(t, "n")
	ps := make([]int64, n)
	kind := rapid.IntRange(0, 2).Draw(t, "powerKind")
	for i := range ps {
		switch kind {
		case 0:
			ps[i] = 1
		case 1:
			ps[i] = rapid.Int64Range(1, 6).Draw(t, "p")
		default:
			ps[i] = rapid.Int64Range(1, 1<<30).Draw(t, "p")
		}
	}
	c := RoundsCase{Powers: ps, ViaSwitch: rapid.IntRange(0, 2).Draw(t, "viaSwitch") == 0}
	c.Ops = rapid.SliceOfN(rapid.Custom(func(t *rapid.T) sim.Op {
		return sim.Op{K: rapid.SampledFrom(roundOps).Draw(t, "k"), N: rapid.IntRange(0, 63).Draw(t, "n"), A: rapid.IntRange(0, 1023).Draw(t, "a")}
	}), 10, 250).Draw(t, "ops")
	return c
}

func runRoundsCase(c RoundsCase, x *h.Ctx) {
	dir, doneDir := sim.TempDir("c16r-")
	defer doneDir()
	net := sim.New(sim.Config{Powers: c.Powers, Dir: dir, RepairProposer: true, ViaSwitch: c.ViaSwitch})
	defer net.Close()
	d := sim.NewDriver(net)
	type hr struct{ h, r int64 }
	seen := map[hr][]byte{}
	who := map[hr]int{}
	maxRound, skipped := int64(0), false
	lastRound := map[int]hr{}
	var problem string
	// the validator set a height starts with: taken the first time any replica is seen in the
	// height (a replica enters a height at round 0 / NewHeight, before any round increment)
	base := map[int64]*types.ValidatorSet{}
	baseWho := map[int64]int{}
	net.OnStep = func(n *sim.Node) {
		if problem != "" {
			return
		}
		rs := n.RS()
		hv := n.CS.GetState().Validators
		if b, ok := base[rs.Height]; !ok {
			if rs.Round == 0 {
				base[rs.Height] = hv.Copy()
				baseWho[rs.Height] = n.ID
			}
		} else if !sameAccums(b, hv) {
			problem = fmt.Sprintf("height-validator-set-differs-between-steps-or-replicas|node %d in height %d round %d step %v: its state's validator set for the height is %s; node %d entered the height with %s", n.ID, rs.Height, rs.Round, rs.Step, dumpSet(hv), baseWho[rs.Height], dumpSet(b))
			return
		}
		if rs.Step < 2 { // NewHeight: the round has not been entered yet
			return
		}
		k := hr{rs.Height, rs.Round}
		if prev, ok := lastRound[n.ID]; ok && prev.h == k.h && k.r > prev.r+1 {
			skipped = true
		}
		lastRound[n.ID] = k
		if k.r > maxRound {
			maxRound = k.r
		}
		got := rs.Validators.Proposer().Address
		if prev, ok := seen[k]; ok {
			if !bytes.Equal(prev, got) {
				problem = fmt.Sprintf("replicas-disagree-on-proposer|for height %d round %d node %d expects proposer %x, node %d expected %x", k.h, k.r, n.ID, got, who[k], prev)
			}
			return
		}
		seen[k] = got
		who[k] = n.ID
		// reference: the set the height started with, advanced k.r times one round at a time
		ref := n.CS.GetState().Validators.Copy()
		if b, ok := base[k.h]; ok {
			ref = b.Copy()
		}
		for i := int64(0); i < k.r; i++ {
			ref.IncrementAccum(1)
		}
		if want := ref.Proposer().Address; !bytes.Equal(want, got) {
			problem = fmt.Sprintf("round-proposer-differs-from-reference|node %d in height %d round %d expects proposer %x; the height's validator set advanced %d single rounds names %x", n.ID, k.h, k.r, got, k.r, want)
		}
	}
	for _, op := range c.Ops {
		if op.K == "lostproposal" {
			// a round whose proposal never arrives: proposals and block parts in flight are lost, every
			// node times out, all votes are delivered (rounds advance without a commit); op.A decides
			// which nodes lag behind (they will later skip rounds when the votes reach them)
			for i := 0; i < len(net.InFlight); {
				switch net.InFlight[i].Msg.(type) {
				case *pbft.ProposalMessage, *pbft.BlockPartMessage:
					net.Drop(i)
					continue
				}
				i++
			}
			for pass := 0; pass < 3; pass++ {
				for i, n := range net.Honest() {
					if !n.Alive || (op.A>>uint(i))&1 == 1 && pass > 0 {
						continue
					}
					rs := n.RS()
					n.Ctl.Ticker.DropStale(rs.Height, rs.Round, rs.Step)
					if p := n.Ctl.Ticker.Pending(); len(p) > 0 {
						net.Timeout(n, len(p)-1)
					}
					for len(n.Own) > 0 {
						if _, isVote := n.Own[0].(*pbft.VoteMessage); !isVote {
							n.Own = n.Own[1:] // its own proposal is lost as well
							continue
						}
						net.OwnStep(n, 0)
					}
				}
				for len(net.InFlight) > 0 {
					net.Deliver(0, false)
				}
			}
		} else {
			d.Apply(op)
		}
		if problem != "" {
			i := bytes.IndexByte([]byte(problem), '|')
			x.Fail(problem[:i], "%s", problem[i+1:])
			return
		}
	}
	x.Labelf("maxround:%d", min64r(maxRound, 4))
	if skipped {
		x.Label("round-skipped")
	}
	if d.Stats.Restarts > 0 {
		x.Label("excluded:proposer-changes-after-persistence-roundtrip")
	}
	if c.ViaSwitch {
		x.Label("entered-via-switch-to-consensus")
	}
	if maxRound >= 2 {
		x.NonTrivial()
	}
}

// sameAccums: same members, powers and accums (the proposer cache is not compared: it is not
// persisted - recorded finding - and hook H3 restores it after restarts)
func sameAccums(a, b *types.ValidatorSet) bool {
	return sameContent(a, b)
}

func min64r(a, b int64) int64 {
	if a < b {
		return a
	}
	return b
}

func TestRoundProposers(t *testing.T) {
	h.Check(t, h.Spec[RoundsCase]{Prop: "C16", Leg: "rounds", Gen: genRoundsCase, Run: runRoundsCase})
}
