// C16: proposer selection is deterministic and proportional to voting power.
//
// Legs
//
//	batch        IncrementAccum(k) versus k x IncrementAccum(1) on a copy (oracle i), plus
//	             invariants of the batched result that hold whatever the selection order is.
//	history      operation histories (increment, copy, add, update, remove, wire round trip) over
//	             several live sets checked after every step against an independently written
//	             model of weighted round robin (oracles ii, iv, v, vi).
//	proportional a window of total-power consecutive single increments selects validator i
//	             exactly power_i times (oracle iii), from any offset of a set built from genesis
//	             and directly after a set change.
//	persist      go-wire binary / JSON round trip of the set and sm.State Save/LoadState through
//	             a mem DB: content, hash, proposer and the future schedule survive (oracle vi).
package c16

import (
	"bytes"
	"fmt"
	"sort"
	"strconv"
	"testing"
	"time"

	crypto "github.com/dappledger/AnnChain/gemmill/go-crypto"
	wire "github.com/dappledger/AnnChain/gemmill/go-wire"
	dbm "github.com/dappledger/AnnChain/gemmill/modules/go-db"
	sm "github.com/dappledger/AnnChain/gemmill/state"
	"github.com/dappledger/AnnChain/gemmill/types"
	"pgregory.net/rapid"

	"verif/internal/h"
)

func TestMain(m *testing.M) { h.Main(m) }

const (
	sigBatch      = "batched-increment-differs-from-singles"
	sigPersist    = "proposer-changes-after-persistence-roundtrip"
	sigCopyAlias  = "copy-proposer-aliases-original"
	sigWindowMut  = "window-not-proportional-after-set-change"
	sigWindow     = "window-not-proportional"
	sigSwap       = "load-intermediate-swaps-validators-and-last-validators"
	maxPower      = int64(1) << 40
	poolSize      = 12
	maxLiveSets   = 4
	maxValidators = 10
)

// ---- identities: a fixed pool of deterministic keys --------------------------------------

type ident struct {
	pub  crypto.PubKey
	addr []byte
}

var pool [poolSize]ident

func init() {
	for i := range pool {
		pk := crypto.GenPrivKeyEd25519FromSecret([]byte(fmt.Sprintf("v%d", i))).PubKey()
		pool[i] = ident{pub: pk, addr: pk.Address()}
	}
}

func keyOf(addr []byte) int {
	for i := range pool {
		if bytes.Equal(pool[i].addr, addr) {
			return i
		}
	}
	return -1
}

// ---- independent reference model of weighted round robin --------------------------------
//
// Written from the documented mechanism (validator.go / validator_set.go comments): every
// round each validator gains its voting power, the one with the most accum (ties: lowest
// address) is the proposer and pays the total voting power. No heap, no cache.

type mVal struct {
	key   int
	power int64
	accum int64
	ca    bool
}

type mSet struct {
	vals      []mVal // sorted by address
	prop      int    // key of the proposer chosen by the last increment; -1 = none since the set was assembled / changed / reloaded
	inherited bool   // created by Copy and not changed since (its proposer cache is the inherited one)
}

func (m *mSet) clone() *mSet {
	c := &mSet{vals: append([]mVal{}, m.vals...), prop: m.prop}
	return c
}

func (m *mSet) total() int64 {
	var t int64
	for _, v := range m.vals {
		t += v.power
	}
	return t
}

func (m *mSet) find(key int) int {
	for i, v := range m.vals {
		if v.key == key {
			return i
		}
	}
	return -1
}

func (m *mSet) inc1() {
	t := m.total()
	best := -1
	for i := range m.vals {
		m.vals[i].accum += m.vals[i].power
		if best < 0 || m.vals[i].accum > m.vals[best].accum { // sorted by address: first maximum wins
			best = i
		}
	}
	m.vals[best].accum -= t
	m.prop = m.vals[best].key
}

// expected is the proposer the model defines: the one chosen by the last increment, or, when
// no increment happened since the set was assembled / changed / reloaded, the documented
// rule of Validator.CompareAccum: most accum, ties to the lowest address.
func (m *mSet) expected() int {
	if m.prop >= 0 {
		return m.prop
	}
	best := 0
	for i := range m.vals {
		if m.vals[i].accum > m.vals[best].accum {
			best = i
		}
	}
	return m.vals[best].key
}

func (m *mSet) add(v mVal) bool {
	if m.find(v.key) >= 0 {
		return false
	}
	m.vals = append(m.vals, v)
	sort.SliceStable(m.vals, func(i, j int) bool { return bytes.Compare(pool[m.vals[i].key].addr, pool[m.vals[j].key].addr) < 0 })
	m.prop = -1
	return true
}

func (m *mSet) update(key int, power int64, ca bool) bool {
	i := m.find(key)
	if i < 0 {
		return false
	}
	m.vals[i].power, m.vals[i].ca = power, ca
	m.prop = -1
	return true
}

func (m *mSet) remove(key int) bool {
	i := m.find(key)
	if i < 0 {
		return false
	}
	m.vals = append(append([]mVal{}, m.vals[:i]...), m.vals[i+1:]...)
	m.prop = -1
	return true
}

func (m *mSet) String() string {
	s := ""
	for _, v := range m.vals {
		s += fmt.Sprintf("k%d[%x]:p%d/a%d ", v.key, pool[v.key].addr[:2], v.power, v.accum)
	}
	return s + fmt.Sprintf("prop=k%d", m.prop)
}

func dumpSet(vs *types.ValidatorSet) string {
	s := ""
	for _, v := range vs.Validators {
		s += fmt.Sprintf("k%d[%x]:p%d/a%d ", keyOf(v.Address), v.Address[:2], v.VotingPower, v.Accum)
	}
	return s
}

// ---- case vocabulary ------------------------------------------------------------------------

type ValSpec struct {
	Key   int   `json:"key"`
	Power int64 `json:"power"`
	CA    bool  `json:"ca,omitempty"`
}

// normalise makes a replayed / shrunk list well-formed: keys in the pool, distinct, power >= 1.
func normalise(in []ValSpec) []ValSpec {
	seen := map[int]bool{}
	var out []ValSpec
	for _, v := range in {
		v.Key = ((v.Key % poolSize) + poolSize) % poolSize
		if seen[v.Key] || len(out) >= maxValidators {
			continue
		}
		seen[v.Key] = true
		if v.Power < 1 {
			v.Power = 1
		}
		if v.Power > maxPower {
			v.Power = maxPower
		}
		out = append(out, v)
	}
	return out
}

func genPower(t *rapid.T, mode int) int64 {
	switch mode {
	case 0:
		return rapid.Int64Range(1, 10).Draw(t, "power")
	case 1:
		return rapid.Int64Range(1, 1000).Draw(t, "power")
	case 2:
		return rapid.Int64Range(1, maxPower).Draw(t, "power")
	default:
		return rapid.SampledFrom([]int64{1, 2, 3, 7, 1 << 20, maxPower - 1, maxPower}).Draw(t, "power")
	}
}

// genVals draws 1..10 validators: equal powers, small, medium, up to 2^40, one dominant, extremes.
func genVals(t *rapid.T, minN int) []ValSpec {
	keys := rapid.SliceOfNDistinct(rapid.IntRange(0, poolSize-1), minN, maxValidators, rapid.ID[int]).Draw(t, "keys")
	mode := rapid.IntRange(0, 5).Draw(t, "powerMode")
	out := make([]ValSpec, len(keys))
	var equal int64
	if mode == 4 {
		equal = genPower(t, rapid.IntRange(0, 3).Draw(t, "equalMode"))
	}
	for i, k := range keys {
		var p int64
		switch mode {
		case 4:
			p = equal
		case 5: // one dominant
			if i == 0 {
				p = rapid.Int64Range(1000, maxPower).Draw(t, "dominant")
			} else {
				p = rapid.Int64Range(1, 10).Draw(t, "power")
			}
		default:
			p = genPower(t, mode)
		}
		out[i] = ValSpec{Key: k, Power: p, CA: rapid.Bool().Draw(t, "ca")}
	}
	return out
}

// build constructs the set the way real callers do: "new" = NewValidatorSet as
// MakeGenesisState does (zero accums, first increment inside the constructor), "add" =
// empty set grown by Add (raft api, benchmarks). The model is built independently.
func build(mode string, vals []ValSpec) (*types.ValidatorSet, *mSet) {
	m := &mSet{prop: -1}
	for _, v := range vals {
		m.vals = append(m.vals, mVal{key: v.Key, power: v.Power, ca: v.CA})
	}
	sort.SliceStable(m.vals, func(i, j int) bool { return bytes.Compare(pool[m.vals[i].key].addr, pool[m.vals[j].key].addr) < 0 })
	if mode == "add" {
		vs := types.NewValidatorSet(nil)
		for _, v := range vals {
			vs.Add(types.NewValidator(pool[v.Key].pub, v.Power, v.CA))
		}
		return vs, m
	}
	tv := make([]*types.Validator, len(vals))
	for i, v := range vals {
		tv[i] = types.NewValidator(pool[v.Key].pub, v.Power, v.CA)
	}
	m.inc1()
	return types.NewValidatorSet(tv), m
}

func allEqualPowers(vals []ValSpec) bool {
	for _, v := range vals {
		if v.Power != vals[0].Power {
			return false
		}
	}
	return true
}

func sameVal(a, b *types.Validator) bool {
	return bytes.Equal(a.Address, b.Address) && a.PubKey != nil && b.PubKey != nil && a.PubKey.Equals(b.PubKey) &&
		a.VotingPower == b.VotingPower && a.Accum == b.Accum && a.IsCA == b.IsCA
}

func sameContent(a, b *types.ValidatorSet) bool {
	if len(a.Validators) != len(b.Validators) {
		return false
	}
	for i := range a.Validators {
		if !sameVal(a.Validators[i], b.Validators[i]) {
			return false
		}
	}
	return true
}

func propAddr(vs *types.ValidatorSet) []byte {
	p := vs.Proposer()
	if p == nil {
		return nil
	}
	return p.Address
}

func rtBinary(vs *types.ValidatorSet) (*types.ValidatorSet, []byte, error) {
	bz := wire.BinaryBytes(vs)
	var n int
	var err error
	out := wire.ReadBinary(&types.ValidatorSet{}, bytes.NewReader(bz), 0, &n, &err)
	if err != nil {
		return nil, bz, err
	}
	if n != len(bz) {
		return nil, bz, fmt.Errorf("read %d of %d bytes", n, len(bz))
	}
	return out.(*types.ValidatorSet), bz, nil
}

func rtJSON(vs *types.ValidatorSet) (*types.ValidatorSet, []byte, error) {
	js := wire.JSONBytes(vs)
	var err error
	out := wire.ReadJSON(&types.ValidatorSet{}, js, &err)
	if err != nil {
		return nil, js, err
	}
	return out.(*types.ValidatorSet), js, nil
}

// ============================================================================================
// leg 1: batch versus singles
// ============================================================================================

type BatchCase struct {
	Build string    `json:"build"`
	Vals  []ValSpec `json:"vals"`
	Warm  int       `json:"warm"` // single increments before the comparison
	K     int       `json:"k"`
}

func genBatchCase(t *rapid.T) BatchCase {
	return BatchCase{
		Build: rapid.SampledFrom([]string{"new", "new", "new", "add"}).Draw(t, "build"),
		Vals:  genVals(t, 1),
		Warm:  rapid.IntRange(0, 30).Draw(t, "warm"),
		K:     rapid.OneOf(rapid.IntRange(1, 5), rapid.IntRange(1, 50)).Draw(t, "k"),
	}
}

func runBatchCase(c BatchCase, x *h.Ctx) {
	vals := normalise(c.Vals)
	if len(vals) == 0 {
		return
	}
	k := c.K
	if k < 1 {
		k = 1
	}
	if k > 50 {
		k = 50
	}
	a, m := build(c.Build, vals)
	for i := 0; i < c.Warm && i < 200; i++ {
		a.IncrementAccum(1)
		m.inc1()
	}
	before := a.Copy()
	b := a.Copy()
	a.IncrementAccum(int64(k))
	for i := 0; i < k; i++ {
		b.IncrementAccum(1)
		m.inc1()
	}
	// the single-step replica must be the model (keeps the reference honest in this leg too)
	if keyOf(propAddr(b)) != m.prop {
		if x.Fail("proposer-differs-from-model", "after %d single increments proposer is k%d, model k%d (%s)", k, keyOf(propAddr(b)), m.prop, m) {
			return
		}
	}
	// (i) batch == repeated single: proposer and accums
	pa, pb := propAddr(a), propAddr(b)
	accDiff := !sameContent(a, b)
	if !bytes.Equal(pa, pb) || accDiff {
		what := "proposer"
		if accDiff {
			what = "accums"
			if !bytes.Equal(pa, pb) {
				what = "proposer and accums"
			}
		}
		x.Label("differs:" + what)
		if x.Fail(sigBatch, "IncrementAccum(%d) and %d x IncrementAccum(1) disagree on %s. start: %s| batched: %sproposer k%d | singles: %sproposer k%d",
			k, k, what, dumpSet(before), dumpSet(a), keyOf(pa), dumpSet(b), keyOf(pb)) {
			return
		}
	} else {
		x.Label("batch-equals-singles")
	}
	// invariants of a batched increment that hold for every order of selections:
	// k selections were paid for, each validator gained k*power, nothing else changed.
	total := m.total()
	var paid int64
	for i, v := range a.Validators {
		o := before.Validators[i]
		if !bytes.Equal(v.Address, o.Address) || v.VotingPower != o.VotingPower || v.IsCA != o.IsCA {
			if x.Fail("increment-changes-identity-or-power", "IncrementAccum(%d) changed validator %d: %v -> %v", k, i, o, v) {
				return
			}
		}
		d := o.Accum + int64(k)*o.VotingPower - v.Accum
		if d < 0 || d%total != 0 {
			if x.Fail("batched-increment-accum-arithmetic", "IncrementAccum(%d): validator k%d accum %d -> %d is not start + k*power - j*total (power %d, total %d)", k, keyOf(v.Address), o.Accum, v.Accum, o.VotingPower, total) {
				return
			}
		}
		paid += d / total
	}
	if paid != int64(k) {
		if x.Fail("batched-increment-selection-count", "IncrementAccum(%d) paid for %d selections", k, paid) {
			return
		}
	}
	if keyOf(pa) < 0 || !a.HasAddress(pa) {
		if x.Fail("proposer-not-current-member", "IncrementAccum(%d): proposer %x is not a member", k, pa) {
			return
		}
	}
	// determinism: a second replica built from scratch with the same calls ends identically
	r, _ := build(c.Build, vals)
	for i := 0; i < c.Warm && i < 200; i++ {
		r.IncrementAccum(1)
	}
	r = r.Copy()
	r.IncrementAccum(int64(k))
	if !bytes.Equal(r.Hash(), a.Hash()) || !bytes.Equal(propAddr(r), pa) {
		if x.Fail("replicas-differ", "two replicas applying warm=%d, IncrementAccum(%d) differ: %s vs %s", c.Warm, k, dumpSet(a), dumpSet(r)) {
			return
		}
	}
	x.Labelf("n:%s", nBucket(len(vals)))
	x.Labelf("k:%s", kBucket(k))
	if allEqualPowers(vals) {
		x.Label("powers:equal")
	}
	if len(vals) >= 2 && !allEqualPowers(vals) && k >= 2 {
		x.NonTrivial()
	}
}

func nBucket(n int) string {
	switch {
	case n == 1:
		return "1"
	case n <= 3:
		return "2-3"
	case n <= 6:
		return "4-6"
	}
	return "7-10"
}

func kBucket(k int) string {
	switch {
	case k == 1:
		return "1"
	case k <= 5:
		return "2-5"
	}
	return "6-50"
}

func TestBatchVsSingles(t *testing.T) {
	h.Check(t, h.Spec[BatchCase]{Prop: "C16", Leg: "batch", Gen: genBatchCase, Run: runBatchCase})
}

// ============================================================================================
// leg 2: operation histories against the model
// ============================================================================================

type Op struct {
	Op    string `json:"op"` // inc | copy | add | update | remove | rt
	Set   int    `json:"set"`
	K     int    `json:"k,omitempty"`
	Key   int    `json:"key,omitempty"`
	Power int64  `json:"power,omitempty"`
	CA    bool   `json:"ca,omitempty"`
	Enc   string `json:"enc,omitempty"` // binary | json (rt)
	Obs   bool   `json:"obs,omitempty"` // observe every live set after this op
}

type HistCase struct {
	Build string    `json:"build"`
	Vals  []ValSpec `json:"vals"`
	Ops   []Op      `json:"ops"`
}

func genOp(t *rapid.T, kinds []string) Op {
	o := Op{
		Op:  rapid.SampledFrom(kinds).Draw(t, "op"),
		Set: rapid.IntRange(0, maxLiveSets-1).Draw(t, "set"),
		Obs: rapid.Bool().Draw(t, "obs"),
	}
	switch o.Op {
	case "inc":
		o.K = rapid.OneOf(rapid.Just(1), rapid.IntRange(1, 5), rapid.IntRange(1, 50)).Draw(t, "k")
	case "add", "update":
		o.Key = rapid.IntRange(0, poolSize-1).Draw(t, "key")
		o.Power = genPower(t, rapid.IntRange(0, 3).Draw(t, "pmode"))
		o.CA = rapid.Bool().Draw(t, "ca")
	case "remove":
		o.Key = rapid.IntRange(0, poolSize-1).Draw(t, "key")
	case "rt":
		o.Enc = rapid.SampledFrom([]string{"binary", "json"}).Draw(t, "enc")
	}
	return o
}

var histKinds = []string{"inc", "inc", "inc", "inc", "copy", "copy", "add", "update", "update", "remove", "rt"}

func genHistCase(t *rapid.T) HistCase {
	c := HistCase{
		Build: rapid.SampledFrom([]string{"new", "new", "new", "add"}).Draw(t, "build"),
		Vals:  genVals(t, 1),
	}
	n := rapid.IntRange(1, 24).Draw(t, "nops")
	for i := 0; i < n; i++ {
		c.Ops = append(c.Ops, genOp(t, histKinds))
	}
	return c
}

// observe compares one live set with its model. target tells whether the last operation was
// applied to this set (false: any difference is aliasing between sets).
func observe(x *h.Ctx, vs *types.ValidatorSet, m *mSet, target bool, lastOp string, where string) bool {
	stop := func(sig, f string, a ...any) bool {
		return x.Fail(sig, where+": "+f, a...)
	}
	diff := len(vs.Validators) != len(m.vals)
	for i := 0; !diff && i < len(m.vals); i++ {
		v, mv := vs.Validators[i], m.vals[i]
		if !bytes.Equal(v.Address, pool[mv.key].addr) || v.PubKey == nil || !v.PubKey.Equals(pool[mv.key].pub) ||
			v.VotingPower != mv.power || v.Accum != mv.accum || v.IsCA != mv.ca {
			diff = true
		}
	}
	if diff {
		sig := "set-differs-from-model-after:" + lastOp
		if !target {
			sig = "aliasing:" + lastOp + "-changed-another-set"
		}
		if stop(sig, "set is %s, model %s", dumpSet(vs), m) {
			return true
		}
		return false // later comparisons are meaningless for this set
	}
	for i := 1; i < len(vs.Validators); i++ {
		if bytes.Compare(vs.Validators[i-1].Address, vs.Validators[i].Address) >= 0 {
			if stop("validators-not-sorted-or-duplicate", "positions %d,%d: %s", i-1, i, dumpSet(vs)) {
				return true
			}
		}
	}
	if vs.Size() != len(m.vals) {
		if stop("size-differs", "Size()=%d, %d validators", vs.Size(), len(m.vals)) {
			return true
		}
	}
	if got := vs.TotalVotingPower(); got != m.total() {
		if stop("total-voting-power-stale", "TotalVotingPower()=%d, sum of powers %d (%s)", got, m.total(), dumpSet(vs)) {
			return true
		}
	}
	p := vs.Proposer()
	if p == nil {
		return stop("proposer-nil", "Proposer() is nil for %d validators", len(m.vals))
	}
	pk := keyOf(p.Address)
	idx := m.find(pk)
	if idx < 0 {
		if stop("proposer-not-current-member", "Proposer() %x is not in %s", p.Address, dumpSet(vs)) {
			return true
		}
	} else {
		if want := m.expected(); pk != want {
			sig := "proposer-differs-from-model"
			if m.prop < 0 {
				sig = "uncached-proposer-differs-from-model"
			}
			if stop(sig, "Proposer() is k%d, model k%d (%s)", pk, want, m) {
				return true
			}
		}
		if !sameVal(p, vs.Validators[idx]) {
			own := vs.Validators[idx]
			sig := "proposer-not-current-member"
			if m.inherited && p.VotingPower == own.VotingPower && p.IsCA == own.IsCA {
				sig = sigCopyAlias
			}
			if stop(sig, "Proposer() returns %v but the set's own entry is %v", p, own) {
				return true
			}
		}
	}
	if !target {
		return false // untouched by the last operation: hash and lookups were checked when it last changed
	}
	// Hash equal for equal content: an independently assembled set with the model's content
	ref := &types.ValidatorSet{}
	for _, mv := range m.vals {
		ref.Validators = append(ref.Validators, &types.Validator{Address: append([]byte{}, pool[mv.key].addr...), PubKey: pool[mv.key].pub, VotingPower: mv.power, Accum: mv.accum, IsCA: mv.ca})
	}
	if !bytes.Equal(vs.Hash(), ref.Hash()) {
		if stop("hash-differs-for-equal-content", "Hash() %x, hash of an equal set %x", vs.Hash(), ref.Hash()) {
			return true
		}
	}
	for k := 0; k < poolSize; k++ {
		want := m.find(k)
		has := vs.HasAddress(pool[k].addr)
		gi, gv := vs.GetByAddress(pool[k].addr)
		if has != (want >= 0) || (gv != nil) != (want >= 0) || (want >= 0 && (gi != want || !sameVal(gv, vs.Validators[want]))) {
			if stop("lookup-differs-from-model", "HasAddress/GetByAddress(k%d) = %v/(%d,%v), model index %d", k, has, gi, gv, want) {
				return true
			}
		}
	}
	return false
}

func runHistCase(c HistCase, x *h.Ctx) {
	vals := normalise(c.Vals)
	if len(vals) == 0 {
		return
	}
	batchOpen := x.IsKnown(sigBatch)
	vs0, m0 := build(c.Build, vals)
	rp0, _ := build(c.Build, vals)
	live := []*types.ValidatorSet{vs0}
	repl := []*types.ValidatorSet{rp0} // replica that copies before every change (copy-on-write, as enterNewRound does)
	model := []*mSet{m0}
	if observeAll(x, live, repl, model, 0, "build", "after build") {
		return
	}
	var nBatch, nMut, nCopy, nRT, nMutAfterCopy, nIncAfterCopy int
	copied := false
	for i, o := range c.Ops {
		if len(c.Ops) > 64 && i >= 64 {
			break
		}
		si := ((o.Set % len(live)) + len(live)) % len(live)
		where := "op " + strconv.Itoa(i) + " " + o.Op + "(set " + strconv.Itoa(si) + ")"
		key := ((o.Key % poolSize) + poolSize) % poolSize
		power := o.Power
		if power < 1 {
			power = 1
		}
		if power > maxPower {
			power = maxPower
		}
		kind := o.Op
		switch o.Op {
		case "inc":
			k := o.K
			if k < 1 {
				k = 1
			}
			if k > 50 {
				k = 50
			}
			repl[si] = repl[si].Copy()
			if k > 1 && batchOpen {
				// open finding: a batched increment is not k singles; keep every other oracle
				// searchable by issuing the k rounds one by one
				x.Label("excluded:" + sigBatch)
				for j := 0; j < k; j++ {
					live[si].IncrementAccum(1)
					repl[si].IncrementAccum(1)
				}
			} else {
				var singles *types.ValidatorSet
				if k > 1 {
					singles = live[si].Copy()
					for j := 0; j < k; j++ {
						singles.IncrementAccum(1)
					}
				}
				live[si].IncrementAccum(int64(k))
				repl[si].IncrementAccum(int64(k))
				if singles != nil && (!sameContent(singles, live[si]) || !bytes.Equal(propAddr(singles), propAddr(live[si]))) {
					// name the root cause instead of a generic model mismatch
					x.Fail(sigBatch, "%s: IncrementAccum(%d) gives %sproposer k%d, %d x IncrementAccum(1) gives %sproposer k%d", where, k,
						dumpSet(live[si]), keyOf(propAddr(live[si])), k, dumpSet(singles), keyOf(propAddr(singles)))
					return
				}
			}
			for j := 0; j < k; j++ {
				model[si].inc1()
			}
			model[si].inherited = false
			if k > 1 {
				nBatch++
			}
			if copied {
				nIncAfterCopy++
			}
		case "copy":
			if len(live) >= maxLiveSets {
				x.Label("skip:copy-at-capacity")
				continue
			}
			live = append(live, live[si].Copy())
			repl = append(repl, repl[si].Copy())
			mc := model[si].clone()
			mc.inherited = true
			model = append(model, mc)
			nCopy++
			copied = true
			si = len(live) - 1
		case "add":
			if len(model[si].vals) >= maxValidators {
				x.Label("skip:add-at-capacity")
				continue
			}
			repl[si] = repl[si].Copy()
			got := live[si].Add(types.NewValidator(pool[key].pub, power, o.CA))
			got2 := repl[si].Add(types.NewValidator(pool[key].pub, power, o.CA))
			want := model[si].add(mVal{key: key, power: power, ca: o.CA})
			if got != want || got2 != want {
				if x.Fail("op-result-differs-from-model:add", "%s: Add(k%d) returned %v/%v, model %v", where, key, got, got2, want) {
					return
				}
			}
			if want {
				nMut++
				model[si].inherited = false
				if copied {
					nMutAfterCopy++
				}
			} else {
				kind = "add-existing"
			}
		case "update":
			// what admin_op.updateValidators does: fetch, change power / IsCA, Update
			repl[si] = repl[si].Copy()
			upd := func(vs *types.ValidatorSet) bool {
				_, v := vs.GetByAddress(pool[key].addr)
				if v == nil {
					v = types.NewValidator(pool[key].pub, power, o.CA)
				}
				v.VotingPower, v.IsCA = power, o.CA
				return vs.Update(v)
			}
			got, got2 := upd(live[si]), upd(repl[si])
			want := model[si].update(key, power, o.CA)
			if got != want || got2 != want {
				if x.Fail("op-result-differs-from-model:update", "%s: Update(k%d) returned %v/%v, model %v", where, key, got, got2, want) {
					return
				}
			}
			if want {
				nMut++
				model[si].inherited = false
				if copied {
					nMutAfterCopy++
				}
			} else {
				kind = "update-absent"
			}
		case "remove":
			if len(model[si].vals) == 1 && model[si].vals[0].key == key {
				x.Label("skip:remove-last-validator") // an empty set cannot select a proposer; no real caller empties it
				continue
			}
			repl[si] = repl[si].Copy()
			rv, got := live[si].Remove(pool[key].addr)
			_, got2 := repl[si].Remove(pool[key].addr)
			want := model[si].remove(key)
			if got != want || got2 != want || (want && (rv == nil || !bytes.Equal(rv.Address, pool[key].addr))) {
				if x.Fail("op-result-differs-from-model:remove", "%s: Remove(k%d) returned (%v,%v)/%v, model %v", where, key, rv, got, got2, want) {
					return
				}
			}
			if want {
				nMut++
				model[si].inherited = false
				if copied {
					nMutAfterCopy++
				}
			} else {
				kind = "remove-absent"
			}
		case "rt":
			rt := rtBinary
			if o.Enc == "json" {
				rt = rtJSON
			}
			beforeProp := propAddr(live[si])
			out, _, err := rt(live[si])
			out2, _, err2 := rt(repl[si])
			if err != nil || err2 != nil {
				if x.Fail("roundtrip-decode-error:"+o.Enc, "%s: %v / %v", where, err, err2) {
					return
				}
				continue
			}
			hashBefore := live[si].Hash()
			live[si], repl[si] = out, out2
			if !bytes.Equal(hashBefore, out.Hash()) {
				if x.Fail("hash-changes-after-roundtrip", "%s(%s): hash %x -> %x", where, o.Enc, hashBefore, out.Hash()) {
					return
				}
			}
			// (vi) the reloaded set names the same proposer
			if after := propAddr(out); !bytes.Equal(beforeProp, after) {
				sig := "proposer-changes-after-roundtrip-without-cached-proposer"
				if model[si].prop >= 0 {
					sig = sigPersist
				}
				if x.Fail(sig, "%s(%s): proposer k%d before, k%d after reload of %s", where, o.Enc, keyOf(beforeProp), keyOf(after), dumpSet(out)) {
					return
				}
				// open finding: the reloaded set goes on with the recomputed proposer until the next increment
				model[si].prop = -1
			}
			model[si].inherited = false
			nRT++
		default:
			continue
		}
		if o.Obs || i == len(c.Ops)-1 {
			if observeAll(x, live, repl, model, si, kind, where) {
				return
			}
		}
	}
	if observeAll(x, live, repl, model, -1, "end", "at end") {
		return
	}
	x.Labelf("n:%s", nBucket(len(vals)))
	x.Labelf("live:%d", len(live))
	if nBatch > 0 {
		x.Label("has:batched-inc")
	}
	if nMut > 0 {
		x.Label("has:mutation")
	}
	if nMutAfterCopy > 0 {
		x.Label("has:mutation-after-copy")
	}
	if nIncAfterCopy > 0 {
		x.Label("has:inc-after-copy")
	}
	if nRT > 0 {
		x.Label("has:roundtrip")
	}
	if allEqualPowers(vals) {
		x.Label("powers:equal")
	}
	if (len(vals) >= 2 && !allEqualPowers(vals) && nBatch > 0) || nMutAfterCopy > 0 || (nRT > 0 && len(vals) >= 2) {
		x.NonTrivial()
	}
}

func observeAll(x *h.Ctx, live, repl []*types.ValidatorSet, model []*mSet, target int, lastOp, where string) bool {
	for j := range live {
		w := where + ", live set " + string(rune('0'+j))
		isTarget := j == target || target < 0
		if observe(x, live[j], model[j], isTarget, lastOp, w) {
			return true
		}
		// (v) the copy-on-write replica agrees on everything observable
		if !sameContent(live[j], repl[j]) || (isTarget && !bytes.Equal(live[j].Hash(), repl[j].Hash())) || !bytes.Equal(propAddr(live[j]), propAddr(repl[j])) {
			if x.Fail("replicas-differ", "%s: in-place replica %s proposer k%d, copy-on-write replica %s proposer k%d", w,
				dumpSet(live[j]), keyOf(propAddr(live[j])), dumpSet(repl[j]), keyOf(propAddr(repl[j]))) {
				return true
			}
		}
	}
	return false
}

func TestHistoryModel(t *testing.T) {
	h.Check(t, h.Spec[HistCase]{Prop: "C16", Leg: "history", Gen: genHistCase, Run: runHistCase})
}

// ============================================================================================
// leg 3: exact proportionality over a window of total-power single increments
// ============================================================================================

type PropCase struct {
	Build string    `json:"build"`
	Vals  []ValSpec `json:"vals"`
	Warm  int       `json:"warm"` // single increments before the window (any offset)
	Muts  []Op      `json:"muts"` // add/update/remove applied after the warm-up, directly before the window
}

func genPropCase(t *rapid.T) PropCase {
	n := rapid.IntRange(1, maxValidators).Draw(t, "n")
	keys := rapid.SliceOfNDistinct(rapid.IntRange(0, poolSize-1), n, n, rapid.ID[int]).Draw(t, "keys")
	mode := rapid.IntRange(0, 3).Draw(t, "powerMode")
	c := PropCase{Build: rapid.SampledFrom([]string{"new", "new", "new", "add"}).Draw(t, "build")}
	var eq int64 = rapid.Int64Range(1, 12).Draw(t, "equal")
	for i, k := range keys {
		var p int64
		switch mode {
		case 0:
			p = rapid.Int64Range(1, 12).Draw(t, "power")
		case 1:
			p = rapid.Int64Range(1, 60).Draw(t, "power")
		case 2:
			p = eq
		default:
			if i == 0 {
				p = rapid.Int64Range(50, 300).Draw(t, "dominant")
			} else {
				p = rapid.Int64Range(1, 5).Draw(t, "power")
			}
		}
		c.Vals = append(c.Vals, ValSpec{Key: k, Power: p})
	}
	c.Warm = rapid.IntRange(0, 400).Draw(t, "warm")
	if rapid.IntRange(0, 3).Draw(t, "mutate") == 0 {
		nm := rapid.IntRange(1, 3).Draw(t, "nmuts")
		for i := 0; i < nm; i++ {
			o := Op{Op: rapid.SampledFrom([]string{"add", "update", "remove"}).Draw(t, "op"), Key: rapid.IntRange(0, poolSize-1).Draw(t, "key")}
			if o.Op != "remove" {
				o.Power = rapid.Int64Range(1, 60).Draw(t, "power")
			}
			c.Muts = append(c.Muts, o)
		}
	}
	return c
}

const maxWindow = 4000

func runPropCase(c PropCase, x *h.Ctx) {
	vals := normalise(c.Vals)
	if len(vals) == 0 {
		return
	}
	for i := range vals { // keep the window affordable also for replayed files
		if vals[i].Power > 400 {
			vals[i].Power = 400
		}
	}
	vs, m := build(c.Build, vals)
	for i := 0; i < c.Warm && i < 2000; i++ {
		vs.IncrementAccum(1)
		m.inc1()
	}
	changed := 0
	for _, o := range c.Muts {
		key := ((o.Key % poolSize) + poolSize) % poolSize
		power := o.Power
		if power < 1 {
			power = 1
		}
		if power > 400 {
			power = 400
		}
		switch o.Op {
		case "add":
			if len(m.vals) < maxValidators && vs.Add(types.NewValidator(pool[key].pub, power, false)) {
				m.add(mVal{key: key, power: power})
				changed++
			}
		case "update":
			if _, v := vs.GetByAddress(pool[key].addr); v != nil && v.VotingPower != power {
				v.VotingPower = power
				vs.Update(v)
				m.update(key, power, false)
				changed++
			}
		case "remove":
			if len(m.vals) > 1 {
				if _, ok := vs.Remove(pool[key].addr); ok {
					m.remove(key)
					changed++
				}
			}
		}
	}
	total := m.total()
	if total > maxWindow {
		x.Label("skip:window-too-long")
		return
	}
	if vs.TotalVotingPower() != total {
		if x.Fail("total-voting-power-stale", "TotalVotingPower()=%d, sum of powers %d", vs.TotalVotingPower(), total) {
			return
		}
	}
	start := dumpSet(vs)
	count := map[int]int64{}
	for i := int64(0); i < total; i++ {
		vs.IncrementAccum(1)
		m.inc1()
		pk := keyOf(propAddr(vs))
		if pk != m.prop {
			if x.Fail("proposer-differs-from-model", "selection %d of the window: proposer k%d, model k%d (%s)", i, pk, m.prop, m) {
				return
			}
		}
		count[pk]++
	}
	bad := ""
	for _, v := range m.vals {
		if count[v.key] != v.power {
			bad += fmt.Sprintf("k%d selected %d times with power %d; ", v.key, count[v.key], v.power)
		}
	}
	if bad != "" {
		sig := sigWindow
		if changed > 0 {
			sig = sigWindowMut
		}
		if x.Fail(sig, "in %d consecutive selections (total power) starting at %s(%d set changes just before): %s", total, start, changed, bad) {
			return
		}
	}
	x.Labelf("n:%s", nBucket(len(m.vals)))
	switch {
	case total <= 20:
		x.Label("total:<=20")
	case total <= 200:
		x.Label("total:21-200")
	default:
		x.Label("total:>200")
	}
	if changed > 0 {
		x.Label("after-set-change")
	} else {
		x.Label("genesis-built")
	}
	eq := true
	for _, v := range m.vals {
		if v.power != m.vals[0].power {
			eq = false
		}
	}
	if eq {
		x.Label("powers:equal")
	}
	if len(m.vals) >= 2 && !eq {
		x.NonTrivial()
	}
}

func TestProportionalWindow(t *testing.T) {
	h.Check(t, h.Spec[PropCase]{Prop: "C16", Leg: "proportional", Gen: genPropCase, Run: runPropCase})
}

// ============================================================================================
// leg 4: persistence
// ============================================================================================

type PersistCase struct {
	Build string    `json:"build"`
	Vals  []ValSpec `json:"vals"`
	Pre   []Op      `json:"pre"`  // inc (single or batched) / add / update / remove before saving
	Mode  string    `json:"mode"` // binary | json | state | state-intermediate
	Post  []int     `json:"post"` // increments applied to both the kept and the reloaded set afterwards
}

func genPersistCase(t *rapid.T) PersistCase {
	c := PersistCase{
		Build: rapid.SampledFrom([]string{"new", "new", "new", "add"}).Draw(t, "build"),
		Vals:  genVals(t, 1),
		Mode:  rapid.SampledFrom([]string{"binary", "json", "state", "state-intermediate"}).Draw(t, "mode"),
	}
	n := rapid.IntRange(0, 8).Draw(t, "npre")
	for i := 0; i < n; i++ {
		c.Pre = append(c.Pre, genOp(t, []string{"inc", "inc", "inc", "inc", "add", "update", "remove"}))
	}
	c.Post = rapid.SliceOfN(rapid.IntRange(1, 8), 0, 4).Draw(t, "post")
	return c
}

var fixedTime = time.Unix(1500000000, 0).UTC()

func runPersistCase(c PersistCase, x *h.Ctx) {
	vals := normalise(c.Vals)
	if len(vals) == 0 {
		return
	}
	vs, m := build(c.Build, vals)
	last := vs.Copy()
	cachedByInc := c.Build != "add"
	nInc := 0
	for i, o := range c.Pre {
		if i >= 32 {
			break
		}
		key := ((o.Key % poolSize) + poolSize) % poolSize
		power := o.Power
		if power < 1 {
			power = 1
		}
		if power > maxPower {
			power = maxPower
		}
		switch o.Op {
		case "inc":
			k := o.K
			if k < 1 {
				k = 1
			}
			if k > 50 {
				k = 50
			}
			last = vs.Copy()
			vs.IncrementAccum(int64(k)) // no model in this leg: batched increments are fine here
			cachedByInc = true
			nInc++
		case "add":
			if vs.Size() < maxValidators && vs.Add(types.NewValidator(pool[key].pub, power, o.CA)) {
				m.add(mVal{key: key, power: power, ca: o.CA})
				cachedByInc = false
			}
		case "update":
			if _, v := vs.GetByAddress(pool[key].addr); v != nil {
				v.VotingPower, v.IsCA = power, o.CA
				vs.Update(v)
				m.update(key, power, o.CA)
				cachedByInc = false
			}
		case "remove":
			if vs.Size() > 1 {
				if _, ok := vs.Remove(pool[key].addr); ok {
					m.remove(key)
					cachedByInc = false
				}
			}
		}
	}
	n := vs.Size()
	kept := vs.Copy() // the replica that never restarted
	propBefore := propAddr(vs)
	hashBefore := vs.Hash()
	var loaded *types.ValidatorSet
	switch c.Mode {
	case "json", "binary":
		rt := rtBinary
		if c.Mode == "json" {
			rt = rtJSON
		}
		out, enc, err := rt(vs)
		if err != nil {
			x.Fail("roundtrip-decode-error:"+c.Mode, "decode of %s: %v", dumpSet(vs), err)
			return
		}
		loaded = out
		_, enc2, _ := rt(out)
		if !bytes.Equal(enc, enc2) {
			if x.Fail("roundtrip-not-canonical:"+c.Mode, "re-encoding the decoded set gives different bytes") {
				return
			}
		}
	default:
		db := dbm.NewMemDB()
		gd := &types.GenesisDoc{ChainID: "c16", GenesisTime: fixedTime, Validators: []types.GenesisValidator{{PubKey: pool[0].pub, Amount: 1, IsCA: true}}}
		// a State bound to a db can only be obtained from MakeGenesisState / LoadState
		g := sm.MakeGenesisState(db, gd)
		g.LastBlockHeight, g.LastBlockTime, g.Validators, g.LastValidators, g.AppHash = int64(nInc), fixedTime, vs, last, []byte{1, 2, 3}
		var ls *sm.State
		if c.Mode == "state" {
			g.Save()
			ls = sm.LoadState(db)
		} else {
			// SaveIntermediate/LoadIntermediate: what ApplyBlock + the crash-recovery path use
			g.SaveIntermediate()
			prev := sm.MakeGenesisState(db, gd)
			prev.LastBlockHeight, prev.Validators, prev.AppHash = g.LastBlockHeight-1, last.Copy(), g.AppHash
			prev.LoadIntermediate()
			ls = prev
		}
		if ls == nil || ls.Validators == nil {
			x.Fail("state-load-failed", "LoadState returned no validators")
			return
		}
		loaded = ls.Validators
		loadedLast := ls.LastValidators
		if c.Mode == "state-intermediate" && !sameContent(vs, last) && sameContent(ls.Validators, last) && sameContent(ls.LastValidators, vs) {
			x.Label("intermediate:swapped")
			if x.Fail(sigSwap, "after SaveIntermediate + LoadIntermediate State.Validators is the saved LastValidators (%s) and State.LastValidators is the saved Validators (%s)", dumpSet(ls.Validators), dumpSet(ls.LastValidators)) {
				return
			}
			// open finding: undo the swap so that everything else about the reloaded sets is still checked
			loaded, loadedLast = ls.LastValidators, ls.Validators
		}
		if !sameContent(loadedLast, last) {
			if x.Fail("roundtrip-changes-validators", "LastValidators %s reloaded as %s", dumpSet(last), dumpSet(loadedLast)) {
				return
			}
		}
		if c.Mode == "state" && !g.Equals(ls) {
			if x.Fail("roundtrip-not-canonical:state", "State.Equals(reloaded) is false") {
				return
			}
		}
	}
	if !sameContent(loaded, vs) {
		if x.Fail("roundtrip-changes-validators", "%s: %s reloaded as %s", c.Mode, dumpSet(vs), dumpSet(loaded)) {
			return
		}
	}
	if !bytes.Equal(loaded.Hash(), hashBefore) {
		if x.Fail("hash-changes-after-roundtrip", "%s: hash %x -> %x", c.Mode, hashBefore, loaded.Hash()) {
			return
		}
	}
	if loaded.TotalVotingPower() != vs.TotalVotingPower() {
		if x.Fail("total-voting-power-stale", "%s: total %d -> %d", c.Mode, vs.TotalVotingPower(), loaded.TotalVotingPower()) {
			return
		}
	}
	// (vi) Proposer() names the same validator as before the save
	propAfter := propAddr(loaded)
	if !bytes.Equal(propBefore, propAfter) {
		sig := "proposer-changes-after-roundtrip-without-cached-proposer"
		if cachedByInc {
			sig = sigPersist
		}
		x.Label("proposer-changed")
		if x.Fail(sig, "%s: proposer of %sis k%d on the running replica and k%d after save+load", c.Mode, dumpSet(vs), keyOf(propBefore), keyOf(propAfter)) {
			return
		}
	} else if cachedByInc {
		x.Label("proposer-kept")
	} else {
		x.Label("proposer-kept(no cached proposer)")
	}
	// the restarted replica and the one that kept running agree on the whole future schedule
	for _, k := range c.Post {
		if k < 1 {
			k = 1
		}
		if k > 50 {
			k = 50
		}
		kept.IncrementAccum(int64(k))
		loaded.IncrementAccum(int64(k))
		if !sameContent(kept, loaded) || !bytes.Equal(propAddr(kept), propAddr(loaded)) || !bytes.Equal(kept.Hash(), loaded.Hash()) {
			if x.Fail("reloaded-set-diverges-after-increment", "%s: after IncrementAccum(%d) running replica %sproposer k%d, restarted replica %sproposer k%d", c.Mode, k,
				dumpSet(kept), keyOf(propAddr(kept)), dumpSet(loaded), keyOf(propAddr(loaded))) {
				return
			}
		}
	}
	x.Label("mode:" + c.Mode)
	x.Labelf("n:%s", nBucket(n))
	if nInc >= 1 && n >= 2 {
		x.NonTrivial()
	}
}

func TestPersistence(t *testing.T) {
	h.Check(t, h.Spec[PersistCase]{Prop: "C16", Leg: "persist", Gen: genPersistCase, Run: runPersistCase})
}
