package c17

import (
	"bytes"
	"fmt"
	"sync"
	"testing"

	"github.com/dappledger/AnnChain/gemmill/types"

	"verif/internal/h"
)

// Leg "concurrent": a node splits, hashes and verifies parts on several goroutines at once (the
// consensus routine, the gossip routines of every peer, fast sync, RPC). "Merkle roots are
// deterministic" and "accepts a part iff it is the genuine one" must not depend on that: W
// goroutines split the same data and reassemble it from the header, and every one of them must
// obtain exactly the sequential result. No timing is judged; a data race on shared hashing state
// shows as a different header, a rejected genuine part or a panic.
type ConcCase struct {
	Seed     uint64 `json:"seed"`
	Len      int    `json:"len"`
	PartSize int    `json:"part_size"`
	Workers  int    `json:"workers"`
	Iters    int    `json:"iters"`
}

func runConcCase(c ConcCase, x *h.Ctx) {
	data := expand(c.Seed, c.Len)
	ref := types.NewPartSetFromData(data, c.PartSize)
	want := ref.Header()
	var mu sync.Mutex
	problem := ""
	report := func(f string, a ...any) {
		mu.Lock()
		if problem == "" {
			problem = fmt.Sprintf(f, a...)
		}
		mu.Unlock()
	}
	var wg sync.WaitGroup
	for w := 0; w < c.Workers; w++ {
		wg.Add(1)
		go func(w int) {
			defer wg.Done()
			defer func() {
				if pv := recover(); pv != nil {
					report("panic|worker %d: %v", w, pv)
				}
			}()
			for it := 0; it < c.Iters; it++ {
				ps := types.NewPartSetFromData(data, c.PartSize)
				if got := ps.Header(); !got.Equals(want) {
					report("header|the same %d bytes split with part size %d give header %v on one goroutine and %v on another", c.Len, c.PartSize, want, got)
					return
				}
				rcv := types.NewPartSetFromHeader(want)
				for i := ps.Total() - 1; i >= 0; i-- {
					p := ps.GetPart(i)
					fresh := &types.Part{Index: p.Index, Bytes: append([]byte{}, p.Bytes...), Proof: p.Proof}
					if added, err := rcv.AddPart(fresh, true); err != nil || !added {
						report("reject|genuine part %d of %d is rejected (added=%v err=%v) while other goroutines hash", i, ps.Total(), added, err)
						return
					}
				}
				if !rcv.IsComplete() {
					report("incomplete|set not complete after all genuine parts")
					return
				}
				var buf bytes.Buffer
				if _, err := buf.ReadFrom(rcv.GetReader()); err != nil || !bytes.Equal(buf.Bytes(), data) {
					report("bytes|reassembled bytes differ from the original")
					return
				}
			}
		}(w)
	}
	wg.Wait()
	x.Labelf("workers:%d", c.Workers)
	x.Labelf("parts:%s", bucket(ref.Total()))
	if problem != "" {
		kind := problem[:bytes.IndexByte([]byte(problem), '|')]
		x.Fail("concurrent-hashing-"+kind, "%s", problem[len(kind)+1:])
		return
	}
	if c.Workers >= 2 && ref.Total() >= 2 {
		x.NonTrivial()
	}
}

func TestConcurrent(t *testing.T) {
	pl := h.NewPlain(t, "C17", "concurrent")
	var rc ConcCase
	if h.ReplayCase("C17", "concurrent", &rc) {
		pl.Case(rc, func(x *h.Ctx) { runConcCase(rc, x) })
		return
	}
	if h.Replaying() {
		t.Skip()
	}
	for i, c := range []ConcCase{
		{Seed: 1, Len: 4096, PartSize: 64, Workers: 8, Iters: 40},
		{Seed: 2, Len: 70000, PartSize: 4096, Workers: 8, Iters: 30},
		{Seed: 3, Len: 999, PartSize: 7, Workers: 16, Iters: 20},
		{Seed: 4, Len: 300, PartSize: 1, Workers: 4, Iters: 20},
		{Seed: 5, Len: 65536, PartSize: 512, Workers: 12, Iters: 20},
		{Seed: 6, Len: 33, PartSize: 32, Workers: 2, Iters: 400},
	} {
		_ = i
		c := c
		if !pl.Case(c, func(x *h.Ctx) { runConcCase(c, x) }) {
			return
		}
	}
}
