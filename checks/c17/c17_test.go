// C17: block parts and Merkle proofs — only genuine parts accepted, exact reassembly.
package c17

import (
	"bytes"
	"crypto/sha256"
	"encoding/binary"
	"fmt"
	"io"
	"testing"

	merkle "github.com/dappledger/AnnChain/gemmill/modules/go-merkle"
	"github.com/dappledger/AnnChain/gemmill/types"
	"golang.org/x/crypto/ripemd160"
	"pgregory.net/rapid"

	"verif/internal/h"
)

func TestMain(m *testing.M) { h.Main(m) }

// ---- independent reference (written from the documented tree shape, not from the code) ----

func refHash(b []byte) []byte { hh := ripemd160.New(); hh.Write(b); return hh.Sum(nil) }

// go-wire byte slice: varint(len) = one size byte + big-endian bytes, then the bytes.
func refByteSlice(b []byte) []byte {
	l := uint64(len(b))
	var tmp [8]byte
	binary.BigEndian.PutUint64(tmp[:], l)
	size := 0
	for x := l; x > 0; x >>= 8 {
		size++
	}
	out := []byte{byte(size)}
	out = append(out, tmp[8-size:]...)
	return append(out, b...)
}

func refTwo(l, r []byte) []byte { return refHash(append(refByteSlice(l), refByteSlice(r)...)) }

func refRoot(hs [][]byte) []byte {
	switch len(hs) {
	case 0:
		return nil
	case 1:
		return hs[0]
	}
	k := (len(hs) + 1) / 2
	return refTwo(refRoot(hs[:k]), refRoot(hs[k:]))
}

// refAunts: sibling hashes from the leaf's sibling up to a child of the root.
func refAunts(hs [][]byte, i int) [][]byte {
	if len(hs) <= 1 {
		return [][]byte{}
	}
	k := (len(hs) + 1) / 2
	if i < k {
		return append(refAunts(hs[:k], i), refRoot(hs[k:]))
	}
	return append(refAunts(hs[k:], i-k), refRoot(hs[:k]))
}

// expand derives n pseudo-random bytes from a drawn seed (pure function of the draw).
func expand(seed uint64, n int) []byte {
	out := make([]byte, 0, n+32)
	var ctr uint64
	for len(out) < n {
		var b [16]byte
		binary.BigEndian.PutUint64(b[:8], seed)
		binary.BigEndian.PutUint64(b[8:], ctr)
		s := sha256.Sum256(b[:])
		out = append(out, s[:]...)
		ctr++
	}
	return out[:n]
}

// ---- leg 1: part sets ----

type PartMut struct {
	At    int    `json:"at"`    // arrival position the mutation applies to
	Kind  string `json:"kind"`  // index | byte | aunt | auntExtra | auntMissing | auntSwap | truncate | extend
	Param int    `json:"param"` // meaning depends on Kind
	Bit   int    `json:"bit"`
}

type PartCase struct {
	Data     h.Hex     `json:"data,omitempty"` // explicit bytes (small cases) or
	DataLen  int       `json:"data_len"`       // length expanded from DataSeed
	DataSeed uint64    `json:"data_seed"`
	PartSize int       `json:"part_size"`
	Arrivals []int     `json:"arrivals"` // each taken modulo total
	Muts     []PartMut `json:"muts"`
	ReadBuf  int       `json:"read_buf"`
}

func (c PartCase) data() []byte {
	if c.DataLen == 0 || len(c.Data) > 0 {
		return []byte(c.Data)
	}
	return expand(c.DataSeed, c.DataLen)
}

func genPartCase(t *rapid.T) PartCase {
	var c PartCase
	if rapid.IntRange(0, 3).Draw(t, "small") > 0 {
		c.Data = rapid.SliceOfN(rapid.Byte(), 0, 96).Draw(t, "data")
		c.DataLen = len(c.Data)
	} else {
		c.DataLen = rapid.OneOf(rapid.IntRange(0, 300), rapid.IntRange(300, 40000), rapid.SampledFrom([]int{4095, 4096, 4097, 8192, 12288, 65536})).Draw(t, "len")
		c.DataSeed = rapid.Uint64().Draw(t, "seed")
	}
	n := c.DataLen
	sizes := []int{1, 2, 3, 7, 64, 4096, 65536}
	if n > 0 {
		sizes = append(sizes, n, n+1, (n+1)/2, (n+2)/3)
		if n > 1 {
			sizes = append(sizes, n-1)
		}
	}
	c.PartSize = rapid.SampledFrom(sizes).Draw(t, "partSize")
	if c.PartSize < 1 {
		c.PartSize = 1
	}
	// keep the number of parts bounded (the code imposes no bound; cost only)
	for (n+c.PartSize-1)/c.PartSize > 600 {
		c.PartSize *= 2
	}
	total := (n + c.PartSize - 1) / c.PartSize
	if total > 0 {
		c.Arrivals = rapid.SliceOfN(rapid.IntRange(0, total-1), 0, 2*total+2).Draw(t, "arrivals")
	}
	kinds := []string{"index", "byte", "aunt", "auntExtra", "auntMissing", "auntSwap", "truncate", "extend"}
	nm := rapid.IntRange(0, 3).Draw(t, "nmuts")
	for i := 0; i < nm && len(c.Arrivals) > 0; i++ {
		m := PartMut{
			At:   rapid.IntRange(0, len(c.Arrivals)-1).Draw(t, "at"),
			Kind: rapid.SampledFrom(kinds).Draw(t, "kind"),
			Bit:  rapid.IntRange(0, 7).Draw(t, "bit"),
		}
		if m.Kind == "index" {
			m.Param = rapid.OneOf(
				rapid.SampledFrom([]int{-1, -2, -1 << 31, -1 << 62, total, total + 1, 1 << 31, 1<<62 + 1}),
				rapid.IntRange(-3, total+3)).Draw(t, "newIndex")
		} else {
			m.Param = rapid.IntRange(0, 1<<20).Draw(t, "param")
		}
		c.Muts = append(c.Muts, m)
	}
	c.ReadBuf = rapid.SampledFrom([]int{1, 2, 7, 64, 4096, 100000}).Draw(t, "readBuf")
	return c
}

func cloneAunts(a [][]byte) [][]byte {
	out := make([][]byte, len(a))
	for i := range a {
		out[i] = append([]byte{}, a[i]...)
	}
	return out
}

func auntsEqual(a, b [][]byte) bool {
	if len(a) != len(b) {
		return false
	}
	for i := range a {
		if !bytes.Equal(a[i], b[i]) {
			return false
		}
	}
	return true
}

func runPartCase(c PartCase, x *h.Ctx) {
	data := c.data()
	n := len(data)
	total := (n + c.PartSize - 1) / c.PartSize
	src := types.NewPartSetFromData(data, c.PartSize)
	hdr := src.Header()
	// reference chunks, leaf hashes, root, aunts
	chunks := make([][]byte, total)
	leaves := make([][]byte, total)
	for i := 0; i < total; i++ {
		e := (i + 1) * c.PartSize
		if e > n {
			e = n
		}
		chunks[i] = data[i*c.PartSize : e]
		leaves[i] = refHash(chunks[i])
	}
	root := refRoot(leaves)
	if hdr.Total != total {
		if x.Fail("partset-total", "NewPartSetFromData(len=%d, partSize=%d).Total=%d want %d", n, c.PartSize, hdr.Total, total) {
			return
		}
	}
	if !bytes.Equal(hdr.Hash, root) {
		if x.Fail("partset-root", "part-set hash %x differs from the reference Merkle root %x (len=%d partSize=%d)", hdr.Hash, root, n, c.PartSize) {
			return
		}
	}
	if !src.IsComplete() || src.Count() != total {
		if x.Fail("partset-source-incomplete", "source set not complete: count=%d total=%d", src.Count(), total) {
			return
		}
	}
	for i := 0; i < total; i++ {
		p := src.GetPart(i)
		if p.Index != i || !bytes.Equal(p.Bytes, chunks[i]) || !auntsEqual(p.Proof.Aunts, refAunts(leaves, i)) {
			if x.Fail("partset-source-part", "source part %d differs from the reference split/proof", i) {
				return
			}
		}
	}

	rcv := types.NewPartSetFromHeader(hdr)
	have := make([]bool, total)
	count := 0
	mutAt := map[int]PartMut{}
	for _, m := range c.Muts {
		if _, dup := mutAt[m.At]; !dup {
			mutAt[m.At] = m
		}
	}
	nMut, nDup, nReorder := 0, 0, 0
	lastIdx := -1
	checkState := func(where string) bool {
		if rcv.Count() != count {
			return x.Fail("partset-count", "%s: Count()=%d, model %d", where, rcv.Count(), count)
		}
		ba := rcv.BitArray()
		for i := 0; i < total; i++ {
			if ba.GetIndex(i) != have[i] {
				return x.Fail("partset-bitarray", "%s: bit %d = %v, model %v", where, i, ba.GetIndex(i), have[i])
			}
		}
		if rcv.IsComplete() != (count == total) {
			return x.Fail("partset-complete", "%s: IsComplete()=%v with %d of %d", where, rcv.IsComplete(), count, total)
		}
		return false
	}
	for pos, a := range c.Arrivals {
		idx := a % total
		g := src.GetPart(idx)
		p := &types.Part{Index: g.Index, Bytes: append([]byte{}, g.Bytes...), Proof: merkle.SimpleProof{Aunts: cloneAunts(g.Proof.Aunts)}}
		mutated := false
		if m, ok := mutAt[pos]; ok {
			switch m.Kind {
			case "index":
				if m.Param != p.Index {
					p.Index = m.Param
					mutated = true
				}
			case "byte":
				if len(p.Bytes) > 0 {
					p.Bytes[m.Param%len(p.Bytes)] ^= 1 << uint(m.Bit)
					mutated = true
				}
			case "truncate":
				if len(p.Bytes) > 0 {
					p.Bytes = p.Bytes[:m.Param%len(p.Bytes)]
					mutated = true
				}
			case "extend":
				p.Bytes = append(p.Bytes, byte(m.Param))
				mutated = true
			case "aunt":
				if len(p.Proof.Aunts) > 0 {
					a := p.Proof.Aunts[m.Param%len(p.Proof.Aunts)]
					a[(m.Param/7)%len(a)] ^= 1 << uint(m.Bit)
					mutated = true
				}
			case "auntExtra":
				extra := refHash([]byte{byte(m.Param)})
				at := m.Param % (len(p.Proof.Aunts) + 1)
				p.Proof.Aunts = append(p.Proof.Aunts[:at], append([][]byte{extra}, p.Proof.Aunts[at:]...)...)
				mutated = true
			case "auntMissing":
				if len(p.Proof.Aunts) > 0 {
					at := m.Param % len(p.Proof.Aunts)
					p.Proof.Aunts = append(p.Proof.Aunts[:at], p.Proof.Aunts[at+1:]...)
					mutated = true
				}
			case "auntSwap":
				if len(p.Proof.Aunts) > 1 {
					i := m.Param % len(p.Proof.Aunts)
					j := (i + 1) % len(p.Proof.Aunts)
					p.Proof.Aunts[i], p.Proof.Aunts[j] = p.Proof.Aunts[j], p.Proof.Aunts[i]
					mutated = true
				}
			}
		}
		// definition-level oracle: the part is genuine iff index in range and bytes and proof
		// are exactly those of the source part at that index.
		genuine := p.Index >= 0 && p.Index < total && bytes.Equal(p.Bytes, chunks[p.Index]) && auntsEqual(p.Proof.Aunts, refAunts(leaves, p.Index))
		if mutated {
			nMut++
		}
		desc := fmt.Sprintf("arrival %d (source part %d, sent index %d, mutated=%v, genuine=%v)", pos, idx, p.Index, mutated, genuine)
		var added bool
		var err error
		func() {
			defer func() {
				if pv := recover(); pv != nil {
					if p.Index < 0 {
						x.Fail("addpart-panics-on-negative-index", "AddPart panicked on %s: %v", desc, pv)
					} else {
						x.Fail("addpart-panics", "AddPart panicked on %s: %v", desc, pv)
					}
					err = fmt.Errorf("panic")
				}
			}()
			added, err = rcv.AddPart(p, true)
		}()
		if x.Failed() {
			return
		}
		switch {
		case genuine && !have[p.Index]:
			if !added || err != nil {
				if x.Fail("genuine-part-rejected", "%s: AddPart = (%v, %v), want (true, nil)", desc, added, err) {
					return
				}
			}
			have[p.Index] = true
			count++
			if p.Index < lastIdx {
				nReorder++
			}
			lastIdx = p.Index
		case genuine:
			nDup++
			if added || err != nil {
				if x.Fail("duplicate-part", "%s: duplicate genuine part gave (%v, %v), want (false, nil)", desc, added, err) {
					return
				}
			}
		default:
			// A forged part for a slot that is already filled may be answered (false,nil) like a
			// duplicate: the property demands rejection without corruption, which that is.
			if added {
				if x.Fail("forged-part-accepted:"+mutKind(mutAt, pos), "%s: forged part was accepted", desc) {
					return
				}
			} else if err == nil && !(p.Index >= 0 && p.Index < total && have[p.Index]) {
				if x.Fail("forged-part-no-error", "%s: forged part for an empty slot returned (false, nil)", desc) {
					return
				}
			}
		}
		if checkState("after " + desc) {
			return
		}
		for i := 0; i < total; i++ {
			if have[i] {
				if gp := rcv.GetPart(i); gp == nil || !bytes.Equal(gp.Bytes, chunks[i]) {
					if x.Fail("partset-corrupted", "after %s: stored part %d differs from the original bytes", desc, i) {
						return
					}
				}
			}
		}
	}
	// completion with the genuine missing parts still yields the original
	for i := total - 1; i >= 0; i-- {
		if !have[i] {
			g := src.GetPart(i)
			added, err := rcv.AddPart(&types.Part{Index: i, Bytes: g.Bytes, Proof: g.Proof}, true)
			if !added || err != nil {
				if x.Fail("genuine-part-rejected", "completion: part %d gave (%v, %v)", i, added, err) {
					return
				}
			}
			have[i] = true
			count++
		}
	}
	if checkState("after completion") {
		return
	}
	var got []byte
	func() {
		defer func() {
			if pv := recover(); pv != nil {
				if total == 0 {
					x.Fail("reader-panics-on-empty-set", "GetReader/Read panicked on a complete part set of 0 parts: %v", pv)
				} else {
					x.Fail("reader-panics", "GetReader/Read panicked: %v", pv)
				}
			}
		}()
		r := rcv.GetReader()
		buf := make([]byte, c.ReadBuf)
		for {
			k, err := r.Read(buf)
			got = append(got, buf[:k]...)
			if err == io.EOF {
				break
			}
			if err != nil {
				x.Fail("reader-error", "Read: %v", err)
				return
			}
			if k == 0 && len(got) > n+10 {
				break
			}
		}
	}()
	if x.Failed() {
		return
	}
	if !bytes.Equal(got, data) {
		if x.Fail("reassembly-differs", "reassembled %d bytes differ from the %d original bytes (partSize=%d readBuf=%d)", len(got), n, c.PartSize, c.ReadBuf) {
			return
		}
	}
	if !bytes.Equal(rcv.Hash(), root) {
		x.Fail("partset-root", "receiver hash differs from reference root")
		return
	}
	x.Labelf("parts:%s", bucket(total))
	if nMut > 0 {
		x.Label("mutated")
	}
	if nDup > 0 {
		x.Label("duplicates")
	}
	if nReorder > 0 {
		x.Label("reordered")
	}
	if total >= 2 && (nMut > 0 || nReorder > 0) {
		x.NonTrivial()
	}
}

func mutKind(m map[int]PartMut, pos int) string {
	if mm, ok := m[pos]; ok {
		return mm.Kind
	}
	return "none"
}

func bucket(n int) string {
	switch {
	case n == 0:
		return "0"
	case n == 1:
		return "1"
	case n <= 4:
		return "2-4"
	case n <= 32:
		return "5-32"
	}
	return ">32"
}

func TestPartSet(t *testing.T) {
	h.Check(t, h.Spec[PartCase]{Prop: "C17", Leg: "partset", Gen: genPartCase, Run: runPartCase})
}

// ---- leg 2: simple Merkle tree proofs ----

type ProofMut struct {
	Kind  string `json:"kind"` // index | total | leaf | aunt | auntExtra | auntMissing | auntSwap
	Param int    `json:"param"`
	Bit   int    `json:"bit"`
}

type MerkleCase struct {
	Items []h.Hex    `json:"items"`
	Probe int        `json:"probe"`
	Muts  []ProofMut `json:"muts"` // each applied separately to the genuine tuple
}

type hashable []byte

func (b hashable) Hash() []byte { return refHash(b) }

func genMerkleCase(t *rapid.T) MerkleCase {
	var c MerkleCase
	n := rapid.OneOf(rapid.IntRange(0, 9), rapid.IntRange(0, 130), rapid.SampledFrom([]int{15, 16, 17, 31, 32, 33, 63, 64, 65, 127, 128, 129})).Draw(t, "n")
	dupMode := rapid.IntRange(0, 4).Draw(t, "dupMode") == 0
	for i := 0; i < n; i++ {
		var it []byte
		if dupMode {
			it = []byte{byte(rapid.IntRange(0, 2).Draw(t, "item"))}
		} else {
			it = rapid.SliceOfN(rapid.Byte(), 0, 5).Draw(t, "item")
		}
		c.Items = append(c.Items, it)
	}
	if n > 0 {
		c.Probe = rapid.IntRange(0, n-1).Draw(t, "probe")
	}
	kinds := []string{"index", "total", "leaf", "aunt", "auntExtra", "auntMissing", "auntSwap", "rootEmpty"}
	nm := rapid.IntRange(1, 6).Draw(t, "nmuts")
	for i := 0; i < nm; i++ {
		m := ProofMut{Kind: rapid.SampledFrom(kinds).Draw(t, "kind"), Bit: rapid.IntRange(0, 7).Draw(t, "bit")}
		switch m.Kind {
		case "index":
			m.Param = rapid.OneOf(rapid.SampledFrom([]int{-1, -2, -1 << 31, -1 << 62, n, n + 1, 1 << 40}), rapid.IntRange(-3, n+3)).Draw(t, "newIndex")
		case "total":
			m.Param = rapid.OneOf(rapid.IntRange(1, n+4), rapid.SampledFrom([]int{n + 1, n - 1, 2 * n, 1 << 20})).Draw(t, "newTotal")
			if m.Param < 1 {
				m.Param = n + 1
			}
		default:
			m.Param = rapid.IntRange(0, 1<<16).Draw(t, "param")
		}
		c.Muts = append(c.Muts, m)
	}
	return c
}

func runMerkleCase(c MerkleCase, x *h.Ctx) {
	n := len(c.Items)
	items := make([]merkle.Hashable, n)
	leaves := make([][]byte, n)
	for i, it := range c.Items {
		items[i] = hashable(it)
		leaves[i] = refHash(it)
	}
	root := refRoot(leaves)
	if got := merkle.SimpleHashFromHashes(leaves); !bytes.Equal(got, root) {
		if x.Fail("merkle-root", "SimpleHashFromHashes over %d items = %x, reference %x", n, got, root) {
			return
		}
	}
	if got := merkle.SimpleHashFromHashables(items); !bytes.Equal(got, root) {
		if x.Fail("merkle-root", "SimpleHashFromHashables over %d items = %x, reference %x", n, got, root) {
			return
		}
	}
	r2, proofs := merkle.SimpleProofsFromHashables(items)
	if !bytes.Equal(r2, root) || len(proofs) != n {
		if x.Fail("merkle-root", "SimpleProofsFromHashables root %x / %d proofs, reference %x / %d", r2, len(proofs), root, n) {
			return
		}
	}
	x.Labelf("items:%s", bucket(n))
	if n == 0 {
		return
	}
	for i := 0; i < n; i++ {
		if !auntsEqual(proofs[i].Aunts, refAunts(leaves, i)) {
			if x.Fail("merkle-aunts", "proof %d of %d has aunts differing from the reference", i, n) {
				return
			}
		}
		if !proofs[i].Verify(i, n, leaves[i], root) {
			if x.Fail("genuine-proof-rejected", "generated proof %d of %d does not verify", i, n) {
				return
			}
		}
	}
	effective := 0
	for _, m := range c.Muts {
		idx, tot := c.Probe, n
		leaf := append([]byte{}, leaves[idx]...)
		aunts := cloneAunts(proofs[idx].Aunts)
		switch m.Kind {
		case "index":
			idx = m.Param
		case "total":
			tot = m.Param
		case "leaf":
			leaf[m.Param%len(leaf)] ^= 1 << uint(m.Bit)
		case "aunt":
			if len(aunts) == 0 {
				continue
			}
			a := aunts[m.Param%len(aunts)]
			a[(m.Param/7)%len(a)] ^= 1 << uint(m.Bit)
		case "auntExtra":
			at := m.Param % (len(aunts) + 1)
			aunts = append(aunts[:at], append([][]byte{refHash([]byte{byte(m.Param)})}, aunts[at:]...)...)
		case "auntMissing":
			if len(aunts) == 0 {
				continue
			}
			at := m.Param % len(aunts)
			aunts = append(aunts[:at], aunts[at+1:]...)
		case "auntSwap":
			if len(aunts) < 2 {
				continue
			}
			i := m.Param % len(aunts)
			j := (i + 1) % len(aunts)
			aunts[i], aunts[j] = aunts[j], aunts[i]
		case "rootEmpty":
			// the receiver's expected root is missing (nil or zero-length, e.g. a part-set header that
			// names a part count but no hash): nothing is a member of such a tree, whatever the aunts
			switch m.Param % 4 {
			case 1:
				aunts = nil
			case 2:
				aunts = append(aunts, refHash([]byte{byte(m.Param)}))
			case 3:
				if len(aunts) > 0 {
					aunts = aunts[:len(aunts)-1]
				}
			}
		}
		expRoot := root
		if m.Kind == "rootEmpty" {
			expRoot = nil
			if m.Bit%2 == 1 {
				expRoot = []byte{}
			}
		}
		// definition: the tuple is a valid inclusion statement for this tree iff it names the real
		// total, an index in range, that index's leaf hash and exactly that index's aunts.
		genuine := m.Kind != "rootEmpty" && tot == n && idx >= 0 && idx < n && bytes.Equal(leaf, leaves[idx]) && auntsEqual(aunts, refAunts(leaves, idx))
		if genuine {
			continue // mutation was a no-op (e.g. swapped equal aunts, equal leaves)
		}
		effective++
		var ok bool
		func() {
			defer func() {
				if pv := recover(); pv != nil {
					x.Fail("proof-verify-panics:"+m.Kind, "Verify(index=%d,total=%d) panicked: %v", idx, tot, pv)
				}
			}()
			sp := merkle.SimpleProof{Aunts: aunts}
			ok = sp.Verify(idx, tot, leaf, expRoot)
		}()
		if x.Failed() {
			return
		}
		if ok {
			sig := "proof-verifies-after-mutation:" + m.Kind
			if m.Kind == "index" && idx < 0 {
				sig = "proof-verifies-for-negative-index"
			}
			if x.Fail(sig, "a proof for (index=%d,total=%d) of a %d-item tree still verifies as (index=%d,total=%d) after mutation %s", c.Probe, n, n, idx, tot, m.Kind) {
				return
			}
		}
	}
	if n >= 2 && effective > 0 {
		x.NonTrivial()
	}
}

func TestMerkleProof(t *testing.T) {
	h.Check(t, h.Spec[MerkleCase]{Prop: "C17", Leg: "merkle", Gen: genMerkleCase, Run: runMerkleCase})
}
